#!/usr/bin/env python3
"""Run the registered quick check of each seeded change's property against /repo with the change applied,
then undo the change. usage: seeded_eval.py [ids...]   writes seeded/RESULTS.json"""
import json, os, subprocess, sys, time, glob
VERIF = os.path.dirname(os.path.dirname(os.path.abspath(__file__)))
# RKSIM_REPO: evaluate on a scratch worktree of /repo (same commit) so /repo stays free for other work
REPO = os.environ.get("RKSIM_REPO", "/repo")
ids = sys.argv[1:] or sorted(os.path.basename(d) for d in glob.glob(os.path.join(VERIF, "seeded", "C*-*")))
resf = os.path.join(VERIF, "seeded", "RESULTS.json")
results = json.load(open(resf)) if os.path.exists(resf) else {}
assert subprocess.run(["git", "-C", REPO, "status", "--porcelain", "--untracked-files=no"], stdout=subprocess.PIPE, text=True).stdout.strip() == "", "repo not clean"
for sid in ids:
    prop = sid.split("-")[0]
    patch = os.path.join(VERIF, "seeded", sid, "patch.diff")
    r = subprocess.run(["git", "-C", REPO, "apply", patch])
    if r.returncode != 0:
        results[sid] = {"error": "patch does not apply"}
        continue
    t0 = time.time()
    try:
        r = subprocess.run(["python3", os.path.join(VERIF, "tools", "check.py"), prop, "--tier", os.environ.get("SEED_TIER", "quick")],
                           stdout=subprocess.PIPE, stderr=subprocess.STDOUT, text=True, cwd=VERIF)
    finally:
        subprocess.run(["git", "-C", REPO, "checkout", "--", "."])
    lines = r.stdout.splitlines()
    sigs = [l.strip() for l in lines if l.strip().startswith("signature=")]
    results[sid] = {"property": prop, "exit": r.returncode, "wall_s": round(time.time() - t0, 1),
                    "violations": [l for l in lines if l.startswith("VIOLATION")], "signatures": [s[:300] for s in sigs],
                    "broken": [l[:300] for l in lines if l.startswith("BROKEN")][:4], "summary": lines[0][:200] if lines else ""}
    print(sid, "exit", r.returncode, "|", "; ".join(s[:160] for s in sigs) or (results[sid]["broken"][:1] or ["(clean)"])[0], flush=True)
    json.dump(results, open(resf, "w"), indent=1)
