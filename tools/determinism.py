#!/usr/bin/env python3
"""Determinism proof: run the same seeds of a scenario several times (1, 4 and 16 worker processes, fresh
processes each) and diff per-run (result, event hash, interleaving hash, steps, switches).
usage: determinism.py <lane> <scenario> [runs=2000] [seed=7]"""
import os, subprocess, sys
VERIF = os.path.dirname(os.path.dirname(os.path.abspath(__file__)))
lane, scen = sys.argv[1], sys.argv[2]
runs = int(sys.argv[3]) if len(sys.argv) > 3 else 2000
seed = sys.argv[4] if len(sys.argv) > 4 else "7"
tier = sys.argv[5] if len(sys.argv) > 5 else "quick"
binp = os.path.join(VERIF, "build", "rksim-" + lane)
outd = os.path.join(VERIF, "build", "det")
os.makedirs(outd, exist_ok=True)
def run(nw, tagname):
    procs = []
    for w in range(nw):
        dump = os.path.join(outd, "%s_%s_%s_%d.dump" % (lane, scen, tagname, w))
        per = (runs + nw - 1) // nw
        procs.append((dump, subprocess.Popen([binp, "worker", "--scenario", scen, "--seed", seed, "--first", str(w), "--stride", str(nw),
            "--maxruns", str(per), "--wall", "3600", "--tier", tier, "--outdir", os.path.join(outd, "o_%s_%d" % (tagname, w)), "--worker", str(w),
            "--batch", str(37 + 11 * nw), "--dump", dump])))
    res = {}
    for dump, p in procs:
        p.wait()
        for line in open(dump):
            f = line.split()
            if int(f[0]) < runs:
                res[int(f[0])] = tuple(f[1:])
    return res
a = run(1, "a1"); b = run(4, "b4"); c = run(16, "c16"); d = run(1, "d1")
bad = 0
for i in range(runs):
    vals = {r.get(i) for r in (a, b, c, d)}
    if len(vals) != 1:
        bad += 1
        if bad <= 5:
            print("MISMATCH index", i, [r.get(i) for r in (a, b, c, d)])
nonok = sum(1 for v in a.values() if v[0] != "0")
print("determinism %s/%s: %d indices x 4 executions (1,4,16,1 processes; different batch sizes), mismatches=%d, non-ok runs=%d" % (lane, scen, runs, bad, nonok))
sys.exit(1 if bad else 0)
