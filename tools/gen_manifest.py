#!/usr/bin/env python3
"""Regenerates /verif/MANIFEST.json from the tables below (claimed checks and not-applicable list)."""
import json, os, subprocess
VERIF = os.path.dirname(os.path.dirname(os.path.abspath(__file__)))

TRUSTED = ("Trusted: the scheduler's model of pthread mutex/condvar/semaphore/join/once/futex semantics; interleavings at "
           "instrumented-access granularity, sequentially consistent or with x86-TSO store buffering (weaker C++-model reorderings are not explored); accesses made by uninstrumented code "
           "(libc, libstdc++.so internals) are neither scheduling points nor shadow-checked; seeded sampling, not exhaustive.")

CLAIMED = {
 "C03": dict(text="Seeded search over controller scripts (start/stop/idle/expect-progress/destroy) x every interleaving of the loop thread "
             "with the controller at each atomic/mutex/condvar step (real AsyncLoop code, real threads released one at a time), spurious "
             "condvar wake-ups as injected fault; history predicates S1 (no body after stop() returned), S2 (progress within 20000 fair "
             "scheduling points after start()), S3 (destructor terminates, nothing runs afterwards). Millions of distinct interleavings "
             "per minute; a 2-instruction window is one scheduling point among ~100. One run in ten keeps 16-19 other AsyncLoops alive around the "
             "scripted one (whatever loops share per process is then shared).",
             design="4 (C03)", note=TRUSTED + " TASK launch on the tbb/omp lanes runs against contract-level stubs of TBB/libgomp."),
 "C12": dict(text="Seeded search over 1..8 producers x consumer scripts x interleavings at every mutex operation and (G1) every shared "
             "access of the real TransactionalBuffer/TransactionalValue; oracle: linearizability of the recorded history against a "
             "sequential buffer model (WGL-style search, <= 26 operations, unique values), exactly-once and per-producer order, value "
             "order / update() return contract, and a vector-clock happens-before race check on the objects and their heap buffers.",
             design="4 (C12)", note=TRUSTED),
 "C08": dict(text="Seeded search over handle histories (copy/move/converting/raw construction, three assignments incl. self and null, "
             "destruction, explicit refInc/refDec, comparisons) on thread 0 and on 2..6 concurrent threads x interleavings at every "
             "atomic counter operation; oracle: reference model of handles (useCount == creator + live handles at every quiescent point, "
             "destroyed exactly once by a releasing operation and never while a live handle remains), arena shadow for use-after-delete "
             "and double delete, happens-before check of the owner's payload write against the destructor. Comparisons also between handles to the "
             "base and to the derived type.",
             design="4 (C08)", note=TRUSTED),
 "C01": dict(text="Seeded search over loop calls (8 index types, boundary-heavy counts incl. negative/0/type maximum, parallel_for / "
             "parallel_foreach / parallel_in_blocks_of<1,3,16,64>, nesting, calls from inside tasks, uneven body cost) x worker/caller "
             "interleavings on four back-end lanes (vendored enkiTS real; TBB and libgomp as contract-level stubs; serial). Oracle "
             "during the run: index outside [0,n), second invocation, block arithmetic, body event after return; afterwards: every "
             "index once; visibility via a happens-before check of every body's slot write against the caller's read. On the tbb/omp/serial lanes "
             "two or three application threads may make their calls at the same time.",
             design="4 (C01)", note=TRUSTED + " TBB and libgomp are stubs implementing their documented contract; a defect needing the real library's behaviour beyond that contract is out of reach."),
 "C02": dict(text="Seeded search over mixes of schedule/async/AsyncTask with result types int, string, vector and an instrumented type "
             "whose construction and assignment take several scheduling points, consumer scripts over finished/valid/wait/get/destroy, "
             "bursts crossing the 256-slot pipe, on four back-end lanes. Oracle: execution count exactly one (fair drain for "
             "'eventually'), value equality and completeness, finished()==true implies a non-blocking get(), no assignment to an "
             "unconstructed result, closure-state conservation, arena shadow for use-after-free/double delete of task and AsyncTask "
             "storage, happens-before race check on the AsyncTask object. Consumer action 'the caller only lets time pass' (no wait/get/destroy) "
             "judges 'eventually, with no further action' for all three APIs.",
             design="4 (C02)", note=TRUSTED + " TBB and libgomp are stubs implementing their documented contract."),
 "C13": dict(text="Seeded search over histories of initTaskingSystem(n) (n in -1,0,1..2H), numTaskingThreads() and parallel loops with a "
             "simulated core count H, every run starting from the image of a freshly started process, on four back-end lanes; oracle: "
             "reported count per the property and the number of simultaneously active loop bodies never above it at any event (reach "
             "probe: the bound is attained); the count is also queried from inside loop bodies and nested loop bodies, and by helper threads.",
             design="4 (C13)", note=TRUSTED + " On the tbb/omp lanes this exercises rkcommon's use of global_control / omp_set_num_threads against the stubs' contract."),
 "C19": dict(text="Seeded search over observer histories (create/notify/repeated notify/poll/destroy in both orders, late observers, "
             "<= 3 observables x <= 4 observers) interleaved with 1..6 threads creating, renewing, copying and moving time stamps at every "
             "atomic step; oracle: reference model of the per-observer pending flag, stamp values globally unique and increasing per thread, "
             "copies equal their source, arena shadow for dangling pointers in either destruction order. Simulated clock readings taken by different "
             "threads may tie (environment dimension for implementations that derive stamps from a clock).",
             design="4 (C19)", note=TRUSTED),
 "C20": dict(text="Trace: seeded search over 0..8 recording threads registering concurrently (interleavings at the registry mutex), event "
             "scripts with balanced nests/markers/counters, event counts 0, 1 and around the chunk size (guarded run-time knob 2/3/8, shipped "
             "8192), simulated monotonic clock with seeded jumps, private TraceRecorder per run and the process-global free-function API "
             "(one run per forked child); oracle: strict RFC 8259 parse of the written file and per-thread event-sequence equality. "
             "Images: six writers x sizes 1..24 (40 thorough) incl. single row/column, input buffer of exactly w*h pixels in the shadowed "
             "arena, file decoded by an independent reader; a few rows of 9 MiB or more (larger than a thread's stack). Trace runs also cover begin events "
             "still open when the log is saved and thread pools whose threads all carry the same name (matched by event sequence).",
             design="4 (C20)", note=TRUSTED + " std::ofstream / stdio file output is real (files under build/scratch). The image half has no schedule or fault dimension; it is run so the property is covered as a whole."),
 "C14": dict(text="Single task against a simulated allocator layer (link-time wrapped posix_memalign/malloc under the library, ASan+UBSan "
             "instrumented): seeded histories of alignedMalloc/alignedFree over boundary sizes (0 .. SIZE_MAX-63) x alignments 1..4096 with up to 8 "
             "live blocks, and of AlignedVector<T> (|T| 1,4,12,16,64) operations against std::vector, with allocation failure injected at a "
             "seeded allocation number; oracle: null-or-aligned, full-extent pattern write/read (ASan checks the extent), neighbour integrity "
             "after every free, 64-byte data() after every reallocating step, model equality, bad_alloc exactly when an allocation failed, "
             "length_error for max_size()+1. Second lane: the same histories fault-free against the real tbbmalloc back end. Third lane: the same histories without sanitizer on the real glibc allocator (multi-MiB blocks next to small ones). Scenario c14mt (sim-tbb): 2-3 simulated threads allocate, tag, verify and free blocks over a stub tbbmalloc that may reissue released blocks from a shared cache; oracle adds 'every block passed to alignedFree reached the back end'.",
             design="5 (C14)", note="Trusted: ASan/UBSan (gcc 12) for extent checking in the _mm_malloc lane; the tbbmalloc lane's memory is not ASan-tracked (only alignment, pattern and model checks apply there) and no failure can be injected inside tbbmalloc. Seeded sampling.",
             technique="deterministic simulation with fault injection: single task over a simulated allocator device (seeded histories x injected allocation failures), reference-model oracle, decision-sequence shrinking, exact replay"),
 "C15": dict(text="Single task: seeded typed value sequences written through BufferWriter / WriteSizeCalculator, carried over a byte channel that "
             "is cut at a seeded offset (biased to value boundaries) into an exact-size heap buffer, and read back; plus write/reserve "
             "histories against a FixedBufferWriter of capacity needed-1 / needed / needed+1 / random (the 'full device' fault). Oracle: "
             "round-trip equality, end()/cursor accounting, calculator == bytes written, a value reaching past the cut throws runtime_error, "
             "accept iff cursor+size <= capacity with no change on reject, views and accounting equal the model; ASan/UBSan on every access. Array "
             "wrappers are written through AbstractArray<T>& and through their own static type; vectors of C strings read back as vectors of strings.",
             design="5 (C15)", note="Trusted: ASan/UBSan (gcc 12) incl. libstdc++ container annotations for over-read detection. Seeded sampling.",
             technique="deterministic simulation with fault injection: single task over a simulated byte channel / fixed-capacity device (seeded value sequences x cut offsets x capacities), reference-model oracle, shrinking, exact replay"),
 "C16": dict(text="Single task against a simulated stdio file layer (link-time wrapped fopen/fseek/ftell/fread/fclose serving the file from an "
             "exact-size heap buffer): seeded trees serialised with legal variation (quote styles, self-closing, whitespace, comments, header) "
             "must come back equal; the same documents under device faults (short read at a seeded offset, flipped/dropped/duplicated/NUL "
             "byte, open failure) and raw byte strings must yield a document or std::runtime_error, with no ASan/UBSan report, no crash and "
             "termination within the wall budget. Second scenario (c16mt, simulated threads on the sim-debug lanes): 2-3 threads call readXML at the "
             "same time, each on valid, truncated and damaged documents of its own, every interleaving at instrumented-access granularity; a valid "
             "document must come back as its tree, a damaged one as a document or std::runtime_error, and the arena shadow flags any read outside a "
             "call's own buffer.",
             design="5 (C16)", note="Trusted: ASan/UBSan (gcc 12). ftell/fseek failures are not injected (the property speaks about byte sequences given as a file). Inputs <= 4 KiB, nesting <= 64. Seeded sampling.",
             technique="deterministic simulation with fault injection: single task over a simulated file device (seeded documents x short reads / corrupted bytes / open failures), outcome and tree-equality oracle under ASan/UBSan; plus seeded schedule search over concurrent readXML calls on real threads parked at compiler-inserted scheduling points; shrinking, exact replay"),
}

NA = {
 "C04":"pure functions of operand values (vec_t operators): no schedule, clock, I/O or fault for a simulator to control",
 "C05":"pure functions of boxes/points/rays: no schedule, clock, I/O or fault",
 "C06":"pure floating-point algebra: no schedule, clock, I/O or fault",
 "C07":"pure scalar kernels; SIMD/NO_SIMD is a build configuration, not a schedule; exhaustive enumeration is the fitting technique, not simulation",
 "C09":"sequential histories on private value types (Optional/Any); the statement names no concurrency, clock, I/O or failure outcome",
 "C10":"sequential map histories on a private object (FlatMap/ParameterizedObject); nothing to schedule or fail",
 "C11":"sequential ownership histories of array wrappers; no schedule, and allocation failure is not part of the statement",
 "C17":"pure index arithmetic over extents; no schedule, clock, I/O or fault",
 "C18":"pure string/path/argument functions; no schedule, clock, I/O or fault",
}
ALL = ["C%02d" % i for i in range(1, 21)]

def main():
    hooks_commits = []
    try:
        out = subprocess.run(["git", "-C", "/repo", "log", "--format=%h %s"], stdout=subprocess.PIPE, text=True).stdout
        for line in out.splitlines():
            if line.split(" ", 1)[1].startswith("verif-hook:"):
                hooks_commits.append(line.split()[0])
    except Exception:
        pass
    checks = []
    for pid in sorted(CLAIMED):
        c = CLAIMED[pid]
        checks.append({
            "property_id": pid,
            "quick_cmd": "python3 tools/check.py %s --tier quick" % pid,
            "thorough_cmd": "python3 tools/check.py %s --tier thorough" % pid,
            "evidence_file": "/verif/evidence/%s.json" % pid,
            "replay_cmd_template": "python3 tools/check.py --replay {path}",
            "engine": "rksim",
            "level_claimed": {"category": "exploration", "text": c["text"], "design_ref": "DESIGN.md section " + c["design"]},
            "level_note": c["note"],
            "technique": c.get("technique", "deterministic simulation with fault injection: seeded schedule/fault search over real threads parked at "
                         "compiler-inserted (TSan-ABI) and interposed synchronisation points, history oracles, decision-sequence shrinking, exact replay"),
        })
    na = [{"property_id": k, "reason": v} for k, v in sorted(NA.items())]
    for pid in ALL:
        if pid not in CLAIMED and pid not in NA:
            na.append({"property_id": pid, "reason": "check not built yet (planned: deterministic simulation, see DESIGN.md)"})
    m = {
        "version": 1,
        "setup_cmd": "make -C sim -j16 REPO=/repo B=/verif/build all",
        "hooks": {"guard": "RKCOMMON_VERIF",
                  "enable": "checks compile the needed rkcommon sources themselves (sim/Makefile) with -DRKCOMMON_VERIF plus the knob macros where a knob hook exists; no scheduling or fault hook is needed in /repo",
                  "baseline_off_cmd": "cmake -S /repo -B /repo/_build -G Ninja >/dev/null && cmake --build /repo/_build && ctest --test-dir /repo/_build -j8 --timeout 900",
                  "source_commits": hooks_commits, "add_only": True},
        "engines": [{"name": "rksim", "path": "sim/", "serves_properties": sorted(CLAIMED),
                     "kind_free_text": "deterministic simulator: own TSan-ABI runtime + pthread/sem/futex/clock interposers + per-run arena heap with shadow + vector-clock race checker + seeded decision stream, replay and shrinking"}],
        "checks": checks,
        "notes": "See DESIGN.md. known_findings.txt lists repaired defects (fixed:) and open findings (open:).",
        "not_applicable": sorted(na, key=lambda x: x["property_id"]),
    }
    json.dump(m, open(os.path.join(VERIF, "MANIFEST.json"), "w"), indent=1)

main()
