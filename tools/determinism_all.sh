#!/bin/sh
# determinism proof over every (lane, scenario) pair; prints one line each, exit 1 on any mismatch
cd "$(dirname "$0")/.."
make -C sim -j16 REPO=/repo B="$PWD/build" all >/dev/null || exit 2
N=${1:-2000}
rc=0
for pair in debug:c03 internal:c03 omp:c03 tbb:c03 debug:c12buf debug:c12val debug:c08 debug:c19 \
            debug:c01 internal:c01 internalp:c01 omp:c01 tbb:c01 debug:c02 internal:c02 internalp:c02 omp:c02 tbb:c02 \
            debug:c13 internal:c13 omp:c13 tbb:c13 tbb:c14mt debug:c20trace debug:c20traceg debug:c20img \
            debug:c08chain debugn:c08chain debugn:c08 debugn:c12buf debugn:c12val debugn:c19 debugn:c20trace debugn:c20img \
            asan:c14 asantbb:c14tbb glibc:c14glibc asan:c15 asan:c16 asann:c15 asann:c16 debug:c16mt debugn:c16mt; do
  lane=${pair%%:*}; scen=${pair##*:}
  python3 tools/determinism.py $lane $scen $N 7 || rc=1
done
exit $rc
