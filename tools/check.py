#!/usr/bin/env python3
"""rksim check driver.

  python3 tools/check.py <ID> [--tier quick|thorough]     explore, gate, minimise, write evidence
  python3 tools/check.py --replay <file>                  re-execute a replay file in a fresh process

exit 0: property held on everything explored (known findings are listed, not alarmed)
exit 1: a violation not listed in known_findings.jsonl (line "VIOLATION property=<id> replay=<path>")
exit 2: the check itself is broken (build failure, replay divergence, nondeterminism, crash)
"""
import array
import json
import os
import re
import shutil
import subprocess
import sys
import time

VERIF = os.path.dirname(os.path.dirname(os.path.abspath(__file__)))
BUILD = os.environ.get("RKSIM_BUILD", os.path.join(VERIF, "build"))
REPO = os.environ.get("RKSIM_REPO", "/repo")
NCPU = int(os.environ.get("RKSIM_WORKERS", "16"))
# RKSIM_OUT: where evidence/ and replays/ go (seeded evaluation on a scratch worktree must not overwrite the committed evidence)
OUT = os.environ.get("RKSIM_OUT", VERIF)

SIM_LANES = ["debug", "internal", "omp", "tbb"]

REAL_STUB = {
    "debug": {"real": ["rkcommon (serial back end)", "libstdc++ (std::thread, condition_variable, future)"],
              "stub": ["pthread/semaphore/futex blocking semantics (scheduler model)", "clock, core count"]},
    "debugn": {"real": ["rkcommon (serial back end) compiled with -DNDEBUG as the shipped Release build is", "libstdc++ (std::thread, condition_variable, future)"],
               "stub": ["pthread/semaphore/futex blocking semantics (scheduler model)", "clock, core count"]},
    "asann": {"real": ["rkcommon compiled with -DNDEBUG", "glibc allocator behind the fault wrapper", "libstdc++"],
              "stub": ["stdio file layer (served from memory, short reads / open failures injected)", "allocator entry points (failure injection)"]},
    "internalp": {"real": ["rkcommon incl. vendored enkiTS task scheduler built with -DNDEBUG and the guarded knobs RKCOMMON_VERIF_PIPESIZE_LOG2=2 (4-slot pipes), RKCOMMON_VERIF_TASKSET_MAX=40", "libstdc++"],
                 "stub": ["pthread/semaphore/futex blocking semantics (scheduler model)", "clock, core count"]},
    "internal": {"real": ["rkcommon incl. vendored enkiTS task scheduler", "libstdc++"],
                 "stub": ["pthread/semaphore/futex blocking semantics (scheduler model)", "clock, core count"]},
    "omp": {"real": ["rkcommon", "gcc-outlined '#pragma omp parallel for' body", "std::thread paths of schedule/AsyncTask"],
            "stub": ["libgomp (GOMP_parallel, dynamic loop scheduling, omp_set_num_threads, omp_get_max_threads) re-implemented over simulated threads",
                     "pthread/semaphore/futex blocking semantics", "clock, core count"]},
    "tbb": {"real": ["rkcommon wrappers (compiled with -DNDEBUG)"],
            "stub": ["TBB (parallel_for, task_arena::enqueue, task_group, global_control) implemented to the documented contract over simulated worker threads",
                     "pthread/semaphore/futex blocking semantics", "clock, core count"]},
    "glibc": {"real": ["rkcommon", "the real glibc allocator (no sanitizer) behind the fault wrapper", "libstdc++"],
              "stub": ["allocation failures injected at the wrapped allocator entry points"]},
    "asan": {"real": ["rkcommon", "glibc allocator behind the fault wrapper", "libstdc++"],
             "stub": ["stdio file layer (served from memory, short reads / open failures injected)",
                      "allocator entry points (failure injection)"]},
}

# property -> list of (scenario, [lanes]) ; wall budgets (seconds of exploration, all lanes together)
PROPS = {
    "C03": {"scen": [("c03", ["debug", "internal", "omp", "tbb"])], "quick": 24, "thorough": 600},
    "C12": {"scen": [("c12buf", ["debug", "debugn"]), ("c12val", ["debug", "debugn"])], "quick": 24, "thorough": 600},
    "C08": {"scen": [("c08", ["debug", "debugn"]), ("c08chain", ["debug", "debugn"])], "quick": 24, "thorough": 600},
    "C19": {"scen": [("c19", ["debug", "debugn"])], "quick": 24, "thorough": 600},
    "C01": {"scen": [("c01", ["internal", "internalp", "omp", "tbb", "debug"])], "quick": 25, "thorough": 900},
    "C02": {"scen": [("c02", ["internal", "internalp", "omp", "tbb", "debug"])], "quick": 28, "thorough": 900},
    "C13": {"scen": [("c13", ["internal", "omp", "tbb", "debug"])], "quick": 28, "thorough": 600},
    "C20": {"scen": [("c20trace", ["debug", "debugn"]), ("c20traceg", ["debug"]), ("c20img", ["debug", "debugn"])], "quick": 24, "thorough": 600},
    "C14": {"scen": [("c14", ["asan"]), ("c14tbb", ["asantbb"]), ("c14glibc", ["glibc"]), ("c14mt", ["tbb"])], "quick": 24, "thorough": 600},
    "C15": {"scen": [("c15", ["asan", "asann"])], "quick": 20, "thorough": 600},
    "C16": {"scen": [("c16", ["asan", "asann"]), ("c16mt", ["debug", "debugn"])], "quick": 32, "thorough": 600},
}


def log(*a):
    print(*a, flush=True)


def lane_binary(lane):
    return os.path.join(BUILD, "rksim-" + lane)


def build(lanes):
    targets = [lane_binary(l) for l in lanes] + [os.path.join(BUILD, "locale", "xx_XX", "LC_NUMERIC")]  # + the test locale (C20)
    cmd = ["make", "-C", os.path.join(VERIF, "sim"), "-j%d" % NCPU, "REPO=" + REPO, "B=" + BUILD] + targets
    t0 = time.time()
    r = subprocess.run(cmd, stdout=subprocess.PIPE, stderr=subprocess.STDOUT, text=True)
    if r.returncode != 0:
        log(r.stdout[-6000:])
        log("BROKEN: build failed")
        sys.exit(2)
    return time.time() - t0


def load_known():
    """known_findings.txt: one finding per line
         open: property=<id> lane=<lane|*> signature=<sig> :: <what fails>
         fixed: property=<id> <commit> <what failed>          (suppresses nothing)
    """
    path = os.path.join(VERIF, "known_findings.txt")
    out = []
    if os.path.exists(path):
        for line in open(path):
            line = line.strip()
            if not line or line.startswith("#"):
                continue
            m = re.match(r"open: property=(\S+) lane=(\S+) signature=(\S+) :: (.*)", line)
            if m:
                out.append({"status": "open", "property": m.group(1), "lane": m.group(2), "signature": m.group(3), "what": m.group(4)})
                continue
            m = re.match(r"fixed: property=(\S+) (\S+) (.*)", line)
            if m:
                out.append({"status": "fixed", "property": m.group(1), "commit": m.group(2), "what": m.group(3)})
    return out


def sig_slug(sig):
    return re.sub(r"[^A-Za-z0-9]+", "-", sig).strip("-")[:80]


def run_lane(prop, scen, lane, tier, seed, wall, outdir, first_base):
    """run NCPU workers of one (scenario, lane) for `wall` seconds; returns list of worker summaries"""
    os.makedirs(outdir, exist_ok=True)
    procs = []
    for w in range(NCPU):
        cmd = [lane_binary(lane), "worker", "--scenario", scen, "--seed", str(seed), "--first", str(first_base + w),
               "--stride", str(NCPU), "--wall", str(wall), "--tier", tier, "--outdir", outdir, "--worker", str(w),
               "--pin", str(w % (os.cpu_count() or 1))]
        if tier == "thorough":
            cmd += ["--batch", "2000"]
        # the code under test may print (the XML reader warns on stdout): never let a full pipe block a run
        errf = open(os.path.join(outdir, "w%d.stderr" % w), "w")
        procs.append((subprocess.Popen(cmd, stdout=subprocess.DEVNULL, stderr=errf), errf))
    broken = []
    for w, (p, errf) in enumerate(procs):
        p.wait()
        errf.close()
        if p.returncode != 0:
            tail = open(os.path.join(outdir, "w%d.stderr" % w), errors="replace").read()[-500:]
            broken.append("worker %d of %s/%s exited %d: %s" % (w, scen, lane, p.returncode, tail))
    sums = []
    for w in range(NCPU):
        pth = os.path.join(outdir, "w%d.summary.json" % w)
        if not os.path.exists(pth):
            broken.append("worker %d of %s/%s wrote no summary" % (w, scen, lane))
            continue
        try:
            sums.append(json.load(open(pth, errors="replace")))
        except Exception as e:  # noqa
            broken.append("worker %d summary unreadable: %s" % (w, e))
    hashes = set()
    for w in range(NCPU):
        pth = os.path.join(outdir, "w%d.hashes" % w)
        if os.path.exists(pth):
            a = array.array("Q")
            with open(pth, "rb") as f:
                a.frombytes(f.read())
            hashes.update(a)
    return sums, hashes, broken


def replay(lane, path):
    r = subprocess.run([lane_binary(lane), "replay", "--file", path], stdout=subprocess.PIPE, stderr=subprocess.STDOUT, text=True)
    return r.returncode, " ".join(l for l in r.stdout.splitlines() if l.startswith("REPLAY"))


def gate_and_minimise(prop, lane, sig, path, tier):
    """returns (final_replay_path, info) or raises SystemExit(2) if the violation does not replay"""
    # (a) the same decisions reproduce the same event hash twice, each in a fresh process
    for k in range(2):
        rc, out = replay(lane, path)
        if "REPRODUCED" not in out:
            log("BROKEN: replay of %s diverged: %s" % (path, out))
            return None, out
    rdir = os.path.join(OUT, "replays")
    os.makedirs(rdir, exist_ok=True)
    final = os.path.join(rdir, "%s_%s_%s.json" % (prop, lane, sig_slug(sig)))
    tmp = final + ".tmp"
    r = subprocess.run([lane_binary(lane), "shrink", "--file", path, "--out", tmp, "--budget", "2000", "--wall",
                        "60" if tier == "quick" else "240"], stdout=subprocess.PIPE, stderr=subprocess.STDOUT, text=True)
    info = " ".join(l for l in r.stdout.splitlines() if l.startswith("SHRINK"))
    if r.returncode != 0 or not os.path.exists(tmp):
        log("BROKEN: shrinking %s failed: %s" % (path, info))
        return None, info
    os.replace(tmp, final)
    # (b) the minimised file reproduces in a fresh process
    rc, out = replay(lane, final)
    if "REPRODUCED" not in out or rc != 1:
        log("BROKEN: minimised replay %s does not reproduce: %s" % (final, out))
        return None, out
    return final, info


def merge_counts(dst, src):
    for k, v in src.items():
        dst[k] = dst.get(k, 0) + v


def main():
    args = sys.argv[1:]
    if args and args[0] == "--replay":
        path = args[1]
        d = json.load(open(path, errors="replace"))
        lane = d["lane"]
        build([lane])
        rc, out = replay(lane, path)
        log(out)
        if "REPRODUCED" in out and rc == 1:
            log("VIOLATION property=%s replay=%s" % (d["property"], path))
            sys.exit(1)
        sys.exit(0 if rc == 0 else 2)
    if not args:
        log(__doc__)
        sys.exit(2)
    prop = args[0]
    tier = os.environ.get("VERIF_TIER", "quick")
    only_lanes = None
    wall_override = None
    i = 1
    while i < len(args):
        if args[i] == "--tier":
            tier = args[i + 1]
            i += 2
        elif args[i] == "--lanes":
            only_lanes = args[i + 1].split(",")
            i += 2
        elif args[i] == "--wall":
            wall_override = float(args[i + 1])
            i += 2
        else:
            i += 1
    if prop not in PROPS:
        log("unknown property", prop)
        sys.exit(2)
    seed = int(os.environ.get("VERIF_SEED", "20261002"))
    cfg = PROPS[prop]
    t_start = time.time()
    jobs = []
    for scen, lanes in cfg["scen"]:
        for lane in lanes:
            if only_lanes and lane not in only_lanes:
                continue
            jobs.append((scen, lane))
    lanes_needed = sorted(set(l for _, l in jobs))
    bt = build(lanes_needed)
    total_wall = wall_override if wall_override else cfg[tier]
    per_job = max(1.0, total_wall / len(jobs))
    outroot = os.path.join(BUILD, "out", prop)
    shutil.rmtree(outroot, ignore_errors=True)
    known = [k for k in load_known() if k.get("property") == prop]
    ev = {"runs": 0, "ok": 0, "violations": 0, "deadlocks": 0, "step_cap": 0, "crashes": 0, "steps": 0, "switches": 0,
          "branch_points": 0, "nontrivial_runs": 0, "det_checked": 0, "det_mismatch": 0, "incidental": 0,
          "races_checked": 0, "clock_span_ns": 0, "hb_overflow_runs": 0, "g0_runs": 0, "g1_runs": 0,
          "tso_runs": 0, "tso_buffered_stores": 0, "tso_delay_decisions": 0}
    faults_fired, faults_offered, probes, strat = {}, {}, {}, {}
    per_lane = {}
    samples = []
    distinct = 0
    broken = []
    viol_by_sig = {}
    incidental_first = ""
    for scen, lane in jobs:
        outdir = os.path.join(outroot, scen + "_" + lane)
        sums, hashes, br = run_lane(prop, scen, lane, tier, seed, per_job, outdir, 0)
        broken += br
        distinct += len(hashes)
        pl = per_lane.setdefault(scen + "/" + lane, {"runs": 0, "violations": 0, "steps": 0, "distinct_interleavings": len(hashes), "wall_s": 0.0})
        for s in sums:
            for k in ev:
                ev[k] += s.get(k, 0)
            pl["runs"] += s["runs"]
            pl["violations"] += s["violations"]
            pl["steps"] += s["steps"]
            pl["wall_s"] = max(pl["wall_s"], s["wall_s"])
            merge_counts(faults_fired, {scen + ":" + k: v for k, v in s["faults_fired"].items()})
            merge_counts(faults_offered, {scen + ":" + k: v for k, v in s["faults_offered"].items()})
            merge_counts(probes, {scen + "/" + lane + ":" + k: v for k, v in s["probes"].items()})
            merge_counts(strat, s["strategy_runs"])
            if s.get("incidental_first") and not incidental_first:
                incidental_first = lane + ": " + s["incidental_first"]
            for b in s["broken"]:
                broken.append("%s/%s worker %d: %s" % (scen, lane, s["worker"], b))
            for smp in s["samples"]:
                if len(samples) < 6 and len([x for x in samples if x["lane"] == lane and x["scenario"] == scen]) < 2:
                    samples.append({"scenario": scen, "lane": lane, "index": smp["index"], "plan": smp["decoded_plan"],
                                    "plan_decisions": smp["plan"], "threads": smp["threads"], "scheduling_points": smp["steps"],
                                    "context_switches": smp["switches"], "faults_fired": smp["faults_fired"],
                                    "result": smp["result"]})
            for v in s["violation_list"]:
                idx, res, sig, path, detail = (v.split("\t") + ["", "", "", "", ""])[:5]
                if not sig:
                    sig = "rt:result-%s" % res
                key = (lane, sig)
                viol_by_sig.setdefault(key, []).append((int(idx), path, detail))
    # ---- violations: gate, minimise, classify against known findings
    new_violations = []
    known_hits = []
    max_sigs = 6
    for (lane, sig), lst in sorted(viol_by_sig.items())[:max_sigs]:
        lst.sort()
        idx, path, detail = lst[0]
        if sig.startswith("rt:"):
            broken.append("unclassified abnormal run %s/%s index %d: %s" % (lane, sig, idx, detail))
            continue
        final, info = gate_and_minimise(prop, lane, sig, path, tier)
        if final is None:
            broken.append("violation %s (%s index %d) failed the replay gate: %s" % (sig, lane, idx, info))
            continue
        match = None
        for k in known:
            if k.get("status") == "open" and k.get("signature") == sig and k.get("lane", lane) in (lane, "*"):
                match = k
        if match:
            known_hits.append((match, lane, sig, final, len(lst)))
        else:
            new_violations.append((lane, sig, final, detail, len(lst), info))
    wall = time.time() - t_start
    runs_per_hour = ev["runs"] / max(1e-9, sum(p["wall_s"] for p in per_lane.values())) * 3600.0
    evidence = {
        "property_id": prop,
        "tier": tier,
        "seed": seed,
        "level": "exploration",
        "wall_s": round(wall, 2),
        "violations": len(new_violations),
        "coverage": {
            "evaluations": ev["runs"],
            "distinct_nontrivial": distinct,
            "rule": "one evaluation = one simulated run (seeded plan + seeded schedule/fault sequence). distinct_nontrivial = number of "
                    "distinct hashes of (decoded plan decisions, full sequence of (simulated thread id, scheduling-point kind)) "
                    "counted only over runs with >= 1 context switch or >= 1 fired fault (single-task lanes: >= 1 fired fault or > 2 "
                    "plan decisions); per-lane sets are summed (a lane is part of the case).",
            "samples": samples,
            "runs_per_hour": round(runs_per_hour),
            "seeds": {"master_seed": seed, "indices_per_lane": "0 .. runs-1 (worker w takes indices congruent w mod %d)" % NCPU},
            "simulated_time": {"scheduling_points": ev["steps"], "context_switches": ev["switches"],
                               "branching_points": ev["branch_points"], "simulated_clock_ns": ev["clock_span_ns"]},
            "results": {k: ev[k] for k in ("ok", "violations", "deadlocks", "step_cap", "crashes")},
            "inconclusive_runs": ev["step_cap"],
            "faults_fired": faults_fired,
            "faults_offered": faults_offered,
            "reach_probes": probes,
            "granularity_runs": {"G0_sync_atomic_volatile": ev["g0_runs"], "G1_plus_plain_shared_accesses": ev["g1_runs"]},
            "strategy_runs": strat,
            "memory_model_runs": {"sequentially_consistent": ev["runs"] - ev["tso_runs"], "x86_tso_store_buffering": ev["tso_runs"],
                                  "stores_buffered": ev["tso_buffered_stores"], "drain_delay_decisions": ev["tso_delay_decisions"]},
            "race_checks_on_watched_memory": ev["races_checked"],
            "hb_disabled_runs_too_many_threads": ev["hb_overflow_runs"],
            "incidental_observations": {"count": ev["incidental"], "first": incidental_first},
            "determinism_sample": {"reruns_in_fresh_process": ev["det_checked"], "mismatches": ev["det_mismatch"]},
            "per_lane": per_lane,
            "components": {l: REAL_STUB.get(l, {}) for l in lanes_needed},
            "known_findings_seen": [{"signature": s, "lane": l, "runs": n, "replay": os.path.relpath(f, VERIF)} for (_, l, s, f, n) in known_hits],
            "new_violations": [{"signature": s, "lane": l, "runs": n, "replay": os.path.relpath(f, VERIF), "detail": d, "shrink": inf}
                               for (l, s, f, d, n, inf) in new_violations],
            "build_s": round(bt, 2),
        },
        "assumptions": [
            "explored executions are interleavings at instrumented-access granularity, sequentially consistent or (a per-run option) with x86-TSO store buffering for instrumented stores; weaker reorderings the C++ memory model would allow are not explored",
            "the scheduler's model of pthread mutex/condvar/semaphore/join/once/futex semantics is trusted",
            "accesses by uninstrumented code (libc memcpy, libstdc++.so internals) are neither scheduling points nor shadow-checked",
            "exploration is seeded sampling: a clean batch is evidence, not proof",
        ],
    }
    os.makedirs(os.path.join(OUT, "evidence"), exist_ok=True)
    with open(os.path.join(OUT, "evidence", prop + ".json"), "w") as f:
        json.dump(evidence, f, indent=1)
    log("%s %s: %d runs, %d distinct nontrivial, %d scheduling points, %.1fs wall, %d runs/h" %
        (prop, tier, ev["runs"], distinct, ev["steps"], wall, runs_per_hour))
    for (k, lane, sig, final, n) in known_hits:
        log("KNOWN-FINDING: property=%s %s [lane %s, signature %s, %d runs, replay %s]" %
            (prop, k.get("what", ""), lane, sig, n, os.path.relpath(final, VERIF)))
    for b in broken[:20]:
        log("BROKEN:", b)
    if ev["det_mismatch"]:
        log("BROKEN: determinism sample mismatches: %d" % ev["det_mismatch"])
    if new_violations:
        # a gated, minimised, replayable violation stands on its own, whatever else went wrong
        for (lane, sig, final, detail, n, info) in new_violations:
            log("VIOLATION property=%s replay=%s" % (prop, final))
            log("  signature=%s lane=%s runs=%d detail=%s" % (sig, lane, n, detail))
            log("  " + info)
        sys.exit(1)
    if ev["det_mismatch"] or broken:
        sys.exit(2)
    if ev["runs"] == 0:
        log("BROKEN: no runs executed")
        sys.exit(2)
    sys.exit(0)


if __name__ == "__main__":
    main()
