#include "rkcommon/tasking/parallel_for.h"
#include "rkcommon/tasking/tasking_system_init.h"
#include <atomic>
#include <cstdio>
using namespace rkcommon::tasking;
int main(){
  initTaskingSystem(16);
  std::atomic<unsigned long long> heads{0};
  unsigned n = 2200000000u;
  parallel_for(n,[&](unsigned i){ if((i & 0xfffffu)==0) heads.fetch_add(1,std::memory_order_relaxed); });
  unsigned long long expect = ((unsigned long long)n + 0xfffff) >> 20;
  printf("heads=%llu expect=%llu\n", heads.load(), expect);
  return heads.load()==expect ? 0 : 1;
}
