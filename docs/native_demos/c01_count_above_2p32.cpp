#include "rkcommon/tasking/parallel_for.h"
#include "rkcommon/tasking/tasking_system_init.h"
#include <atomic>
#include <cstdio>
using namespace rkcommon::tasking;
int main(){
  initTaskingSystem(16);
  std::atomic<unsigned long long> heads{0}, bad{0};
  size_t n = (1ull<<32) + 5;
  parallel_for(n,[&](size_t i){ if((i & 0xfffffu)==0) heads.fetch_add(1,std::memory_order_relaxed); if (i>=n) bad++; });
  unsigned long long expect = ((unsigned long long)n + 0xfffff) >> 20;
  printf("heads=%llu expect=%llu bad=%llu\n", heads.load(), expect, bad.load());
  // exactly-once on a smaller case through every index type
  int rc = heads.load()==expect && !bad ? 0 : 1;
  { std::atomic<int> c{0}; parallel_for((unsigned char)200,[&](unsigned char i){ c += i; }); if (c != 199*200/2) rc = 1; }
  { std::atomic<long long> c{0}; parallel_for((short)-3,[&](short){ c++; }); if (c != 0) rc = 1; }
  { std::atomic<long long> c{0}; parallel_for(100000ll,[&](long long i){ c += i; }); if (c != 99999ll*100000/2) rc = 1; }
  return rc;
}
