#pragma once
#include "tbbstub.h"
namespace tbb {
class task_group_context
{
 public:
  enum kind_type { isolated, bound };
  enum traits_type { fp_settings = 1, concurrent_wait = 2, default_traits = 0 };
  task_group_context(kind_type = bound, unsigned long = default_traits) {}
  task_group_context(const task_group_context &) = delete;
  bool cancel_group_execution()
  {
    bool was = c.cancelled;
    c.cancelled = true;
    return !was;
  }
  bool is_group_execution_cancelled() const { return c.cancelled; }
  void reset() { c.cancelled = false; }
  void capture_fp_settings() {}
  tbbstub::Context *stub() { return &c; }

 private:
  tbbstub::Context c;
};
}  // namespace tbb
