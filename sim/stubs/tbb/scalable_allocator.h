// Stub of tbbmalloc's C interface for the simulated lanes: blocks come from the per-run arena (so that its shadow sees every
// byte outside a block), aligned as requested. Contract: null or a pointer aligned to `alignment` with at least `size`
// usable bytes; scalable_msize() reports the usable size; freeing null is allowed.
#pragma once
#include <stddef.h>
extern "C" {
void *scalable_aligned_malloc(size_t size, size_t alignment);
void scalable_aligned_free(void *ptr);
size_t scalable_msize(void *ptr);
// the rest of the C interface (blocks of either family may be released with either free function, as in the library)
void *scalable_malloc(size_t size);
void scalable_free(void *ptr);
void *scalable_calloc(size_t nobj, size_t size);
void *scalable_realloc(void *ptr, size_t size);
void *scalable_aligned_realloc(void *ptr, size_t size, size_t alignment);
int scalable_posix_memalign(void **memptr, size_t alignment, size_t size);
}
