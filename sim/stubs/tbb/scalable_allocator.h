// Stub of tbbmalloc's C interface for the simulated lanes: blocks come from the per-run arena (so that its shadow sees every
// byte outside a block), aligned as requested. Contract: null or a pointer aligned to `alignment` with at least `size`
// usable bytes; scalable_msize() reports the usable size; freeing null is allowed.
#pragma once
#include <stddef.h>
extern "C" {
void *scalable_aligned_malloc(size_t size, size_t alignment);
void scalable_aligned_free(void *ptr);
size_t scalable_msize(void *ptr);
}
