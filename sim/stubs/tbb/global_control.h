#pragma once
#include "tbbstub.h"
namespace tbb {
class global_control
{
 public:
  enum parameter { max_allowed_parallelism, thread_stack_size, terminate_on_exception };
  global_control(parameter p, size_t value) : h(nullptr)
  {
    if (p == max_allowed_parallelism)
      h = tbbstub::control_push((int)value);
  }
  ~global_control()
  {
    if (h)
      tbbstub::control_pop(h);
  }
  global_control(const global_control &) = delete;
  static size_t active_value(parameter p)
  {
    return p == max_allowed_parallelism ? (size_t)tbbstub::active_parallelism() : 0;
  }

 private:
  void *h;
};
}  // namespace tbb
