#pragma once
#include "task_group_context.h"
#include "tbbstub.h"
namespace tbb {
template <typename Index, typename Function>
void parallel_for(Index first, Index last, const Function &f, task_group_context &context)
{
  if (!(first < last))
    return;
  struct Ctx
  {
    const Function *f;
    Index first;
  } c = {&f, first};
  unsigned long long count = (unsigned long long)(last - first);
  tbbstub::run_parallel(
      count,
      [](void *p, unsigned long long i) {
        Ctx *cc = (Ctx *)p;
        (*cc->f)((Index)(cc->first + (Index)i));
      },
      &c, context.stub());
}
template <typename Index, typename Function>
void parallel_for(Index first, Index last, const Function &f)
{
  if (!(first < last))
    return;
  struct Ctx
  {
    const Function *f;
    Index first;
  } c = {&f, first};
  unsigned long long count = (unsigned long long)(last - first);
  tbbstub::run_parallel(
      count,
      [](void *p, unsigned long long i) {
        Ctx *cc = (Ctx *)p;
        (*cc->f)((Index)(cc->first + (Index)i));
      },
      &c);
}
template <typename Index, typename Function>
void parallel_for(Index first, Index last, Index step, const Function &f)
{
  if (!(first < last) || !(step > 0))
    return;
  struct Ctx
  {
    const Function *f;
    Index first, step;
  } c = {&f, first, step};
  unsigned long long count = ((unsigned long long)(last - first) + (unsigned long long)step - 1) / (unsigned long long)step;
  tbbstub::run_parallel(
      count,
      [](void *p, unsigned long long i) {
        Ctx *cc = (Ctx *)p;
        (*cc->f)((Index)(cc->first + (Index)i * cc->step));
      },
      &c);
}
}  // namespace tbb
