#pragma once
// the stub presents the interface of oneTBB 2021.8
#ifndef TBB_INTERFACE_VERSION
#define TBB_INTERFACE_VERSION 12080
#endif
