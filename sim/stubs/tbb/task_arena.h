#pragma once
#include "tbbstub.h"
namespace tbb {
class task_arena
{
 public:
  struct attach
  {
  };
  task_arena() {}
  explicit task_arena(attach) {}
  template <typename F>
  void enqueue(F &&f)
  {
    tbbstub::enqueue(std::function<void()>(std::forward<F>(f)));
  }
  template <typename F>
  void execute(F &&f)
  {
    f();
  }
};
}  // namespace tbb
