#pragma once
#include "tbbstub.h"
#include "task_group.h"
namespace tbb {
class task_arena
{
 public:
  struct attach
  {
  };
  task_arena() {}
  explicit task_arena(attach) {}
  template <typename F>
  void enqueue(F &&f)
  {
    tbbstub::enqueue(std::function<void()>(std::forward<F>(f)));
  }
  // an enqueued task runs eventually even if no thread ever waits for it (a worker is created for it if need be)
  void enqueue(task_handle &&h) { tbbstub::group_enqueue(h.g, std::move(h.f)); }
  template <typename F>
  void execute(F &&f)
  {
    f();
  }
};
}  // namespace tbb
