#pragma once
#include "tbbstub.h"
namespace tbb {
// a task created by task_group::defer(): belongs to its group (wait() waits for it) but is not scheduled yet
class task_handle
{
 public:
  task_handle() : g(nullptr) {}
  task_handle(tbbstub::Group *g_, std::function<void()> f_) : g(g_), f(std::move(f_)) {}
  task_handle(task_handle &&o) : g(o.g), f(std::move(o.f)) { o.g = nullptr; }
  task_handle(const task_handle &) = delete;
  tbbstub::Group *g;
  std::function<void()> f;
};
class task_group
{
 public:
  task_group() : g(tbbstub::group_create()) {}
  ~task_group() { tbbstub::group_destroy(g); }
  task_group(const task_group &) = delete;
  task_group &operator=(const task_group &) = delete;
  template <typename F>
  void run(F &&f)
  {
    tbbstub::group_run(g, std::function<void()>(std::forward<F>(f)));
  }
  template <typename F>
  task_handle defer(F &&f)
  {
    return task_handle(g, std::function<void()>(std::forward<F>(f)));
  }
  void run(task_handle &&h) { tbbstub::group_run(h.g, std::move(h.f)); }
  void wait() { tbbstub::group_wait(g); }

 private:
  tbbstub::Group *g;
};
}  // namespace tbb
