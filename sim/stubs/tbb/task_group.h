#pragma once
#include "tbbstub.h"
namespace tbb {
class task_group
{
 public:
  task_group() : g(tbbstub::group_create()) {}
  ~task_group() { tbbstub::group_destroy(g); }
  task_group(const task_group &) = delete;
  task_group &operator=(const task_group &) = delete;
  template <typename F>
  void run(F &&f)
  {
    tbbstub::group_run(g, std::function<void()>(std::forward<F>(f)));
  }
  void wait() { tbbstub::group_wait(g); }

 private:
  tbbstub::Group *g;
};
}  // namespace tbb
