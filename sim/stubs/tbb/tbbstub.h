// Stub TBB over simulated threads: the documented contract of the few entry points rkcommon
// uses, nothing else. (Real libtbb runs under the scheduler but is not deterministic per seed.)
#pragma once
#include <stddef.h>
#include <functional>

// the stub presents the interface of oneTBB 2021.8
#ifndef TBB_INTERFACE_VERSION
#define TBB_INTERFACE_VERSION 12080
#endif

namespace tbbstub {
// runs body(i) for every i in [0,count) exactly once, on the calling thread and up to
// (allowed parallelism - threads already active) helper threads; returns after all finished
// a task group context: carries the cancellation request of a group of tasks. An algorithm run in a
// cancelled context executes nothing; a body that throws cancels the context and the exception is
// rethrown in the caller after the algorithm's threads have stopped. A context supplied by the user
// stays cancelled until reset() (the implicit per-call context is fresh for every call).
struct Context
{
  bool cancelled = false;
};
void run_parallel(unsigned long long count, void (*body)(void *ctx, unsigned long long i), void *ctx, Context *group = nullptr);
void enqueue(std::function<void()> f);           // fire and forget, executed eventually by a worker thread
int active_parallelism();                        // current max_allowed_parallelism
void *control_push(int n);
void control_pop(void *h);
struct Group;
Group *group_create();
void group_run(Group *g, std::function<void()> f);
void group_enqueue(Group *g, std::function<void()> f);   // a task of the group enqueued into the arena: runs without anybody waiting
void group_wait(Group *g);
void group_destroy(Group *g);
}  // namespace tbbstub
