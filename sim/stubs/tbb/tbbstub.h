// Stub TBB over simulated threads: the documented contract of the few entry points rkcommon
// uses, nothing else. (Real libtbb runs under the scheduler but is not deterministic per seed.)
#pragma once
#include <stddef.h>
#include <functional>

namespace tbbstub {
// runs body(i) for every i in [0,count) exactly once, on the calling thread and up to
// (allowed parallelism - threads already active) helper threads; returns after all finished
void run_parallel(unsigned long long count, void (*body)(void *ctx, unsigned long long i), void *ctx);
void enqueue(std::function<void()> f);           // fire and forget, executed eventually by a worker thread
int active_parallelism();                        // current max_allowed_parallelism
void *control_push(int n);
void control_pop(void *h);
struct Group;
Group *group_create();
void group_run(Group *g, std::function<void()> f);
void group_wait(Group *g);
void group_destroy(Group *g);
}  // namespace tbbstub
