// Stub libgomp over simulated threads (the real one parks on raw futex instructions inside the
// dependency and cannot be controlled). Implements exactly what gcc emits for rkcommon's
//   #pragma omp parallel for schedule(dynamic)
// plus omp_set_num_threads / omp_get_max_threads, to their documented contract:
//  - a parallel region runs fn on a team of nthreads-var threads (the encountering thread is one
//    of them), joins them before returning; a nested region gets a team of one (max-active-levels 1)
//  - a dynamic loop hands out chunks of `chunk` iterations, each iteration to exactly one thread
// Compiled with the same instrumentation as the code under test, so interleavings inside the
// shim are explored as well; its state lives in the DSO image and is reset for every run.
#include <sched.h>
#include <pthread.h>
#include <stdint.h>
#include <stdlib.h>
#include <string.h>
#include <unistd.h>

#include <atomic>
#include <mutex>
#include <vector>

namespace {

struct WorkShare
{
  bool is_ull;
  long next, end, incr, chunk;
  unsigned long long unext, uend, uincr, uchunk;
  bool up;
};

struct DeferredTask
{
  void (*fn)(void *);
  void *arg;   // owned copy of the task's data block (malloc)
};

struct Team
{
  int nthreads;
  std::mutex mtx;
  unsigned ws_gen = 0;  // number of work-share constructs initialised so far
  WorkShare ws;
  void (*fn)(void *);
  void *data;
  std::vector<DeferredTask> tasks;  // deferred explicit tasks, run at the latest at the region's end
};

// run deferred tasks of the team until none is left (a task scheduling point)
void drain_tasks(Team *t)
{
  for (;;) {
    DeferredTask d;
    {
      std::lock_guard<std::mutex> lock(t->mtx);
      if (t->tasks.empty())
        return;
      d = t->tasks.back();
      t->tasks.pop_back();
    }
    d.fn(d.arg);
    free(d.arg);
  }
}

struct ThreadState
{
  Team *team = nullptr;
  unsigned ws_seen = 0;
  int level = 0;
  int active_level = 0;  // enclosing regions with more than one thread
  int thread_num = 0;
  int nthreads_var = 0;  // nthreads-var ICV of this thread's data environment (0: the global default). As in libgomp it is per
                         // thread: omp_set_num_threads() changes the calling thread's copy, other native threads keep the default
};
thread_local ThreadState tls;

int g_max_active_levels = 1;  // nested regions beyond this many active levels get a team of one

int default_threads()
{
  // like the real library: the CPUs this process may run on (affinity mask), not the CPUs that are online
  cpu_set_t set;
  if (sched_getaffinity(0, sizeof set, &set) == 0 && CPU_COUNT(&set) > 0)
    return CPU_COUNT(&set);
  long n = sysconf(_SC_NPROCESSORS_ONLN);
  return n > 0 ? (int)n : 1;
}

struct Start
{
  Team *team;
  int num;
  int level;
  int active_level;
  int nthreads_var;  // inherited from the thread that encountered the parallel construct
};

void *team_thread(void *p)
{
  Start *s = (Start *)p;
  ThreadState saved = tls;
  tls.team = s->team;
  tls.ws_seen = 0;
  tls.level = s->level;
  tls.active_level = s->active_level;
  tls.thread_num = s->num;
  tls.nthreads_var = s->nthreads_var;
  s->team->fn(s->team->data);
  drain_tasks(s->team);  // implicit barrier at the end of the region: a task scheduling point
  tls = saved;
  return nullptr;
}

}  // namespace

extern "C" {

void omp_set_num_threads(int n)
{
  if (n > 0)
    tls.nthreads_var = n;
}
int omp_get_max_threads(void) { return tls.nthreads_var > 0 ? tls.nthreads_var : default_threads(); }
int omp_get_num_threads(void) { return tls.team ? tls.team->nthreads : 1; }
int omp_get_thread_num(void) { return tls.thread_num; }
int omp_in_parallel(void) { return tls.active_level > 0; }
int omp_get_num_procs(void) { return default_threads(); }
int omp_get_max_active_levels(void) { return g_max_active_levels; }
void omp_set_max_active_levels(int n)
{
  if (n >= 0)
    g_max_active_levels = n;
}
int omp_get_nested(void) { return g_max_active_levels > 1; }
void omp_set_nested(int on) { g_max_active_levels = on ? 64 : 1; }
int omp_get_level(void) { return tls.level; }
int omp_get_active_level(void) { return tls.active_level; }

void GOMP_parallel(void (*fn)(void *), void *data, unsigned num_threads, unsigned /*flags*/)
{
  int n = num_threads ? (int)num_threads : omp_get_max_threads();
  if (tls.active_level >= g_max_active_levels)
    n = 1;  // no further active level allowed: the nested region is serialised
  Team team;
  team.nthreads = n;
  team.fn = fn;
  team.data = data;
  std::vector<pthread_t> ths((size_t)n);
  std::vector<Start> starts((size_t)n);
  int level = tls.level + 1;
  int active = tls.active_level + (n > 1 ? 1 : 0);
  for (int i = 1; i < n; i++) {
    starts[(size_t)i] = {&team, i, level, active, tls.nthreads_var};
    pthread_create(&ths[(size_t)i], nullptr, team_thread, &starts[(size_t)i]);
  }
  starts[0] = {&team, 0, level, active, tls.nthreads_var};
  team_thread(&starts[0]);
  for (int i = 1; i < n; i++)
    pthread_join(ths[(size_t)i], nullptr);
  drain_tasks(&team);
}

static bool next_long(Team *t, long *istart, long *iend)
{
  std::lock_guard<std::mutex> lock(t->mtx);
  WorkShare &w = t->ws;
  if (w.incr > 0 ? w.next >= w.end : w.next <= w.end)
    return false;
  long s = w.next;
  long e;
  long span = w.chunk * w.incr;
  if (w.incr > 0)
    e = (w.end - s <= span) ? w.end : s + span;
  else
    e = (w.end - s >= span) ? w.end : s + span;
  w.next = e;
  *istart = s;
  *iend = e;
  return true;
}

bool GOMP_loop_nonmonotonic_dynamic_start(long start, long end, long incr, long chunk, long *istart, long *iend)
{
  Team *t = tls.team;
  Team solo;
  if (!t) {  // orphaned loop: team of one
    solo.nthreads = 1;
    t = &solo;
  }
  {
    std::lock_guard<std::mutex> lock(t->mtx);
    if (t->ws_gen == tls.ws_seen) {
      t->ws.is_ull = false;
      t->ws.next = start;
      t->ws.end = end;
      t->ws.incr = incr;
      t->ws.chunk = chunk > 0 ? chunk : 1;
      t->ws_gen++;
    }
    tls.ws_seen++;
  }
  return next_long(t, istart, iend);
}
bool GOMP_loop_nonmonotonic_dynamic_next(long *istart, long *iend) { return next_long(tls.team, istart, iend); }
bool GOMP_loop_dynamic_start(long a, long b, long c, long d, long *e, long *f)
{
  return GOMP_loop_nonmonotonic_dynamic_start(a, b, c, d, e, f);
}
bool GOMP_loop_dynamic_next(long *e, long *f) { return GOMP_loop_nonmonotonic_dynamic_next(e, f); }

static bool next_ull(Team *t, unsigned long long *istart, unsigned long long *iend)
{
  std::lock_guard<std::mutex> lock(t->mtx);
  WorkShare &w = t->ws;
  if (w.up ? w.unext >= w.uend : w.unext <= w.uend)
    return false;
  unsigned long long s = w.unext, e;
  unsigned long long span = w.uchunk * w.uincr;
  if (w.up)
    e = (w.uend - s <= span) ? w.uend : s + span;
  else
    e = (s - w.uend <= (0 - span)) ? w.uend : s + span;
  w.unext = e;
  *istart = s;
  *iend = e;
  return true;
}

bool GOMP_loop_ull_nonmonotonic_dynamic_start(bool up, unsigned long long start, unsigned long long end,
                                              unsigned long long incr, unsigned long long chunk,
                                              unsigned long long *istart, unsigned long long *iend)
{
  Team *t = tls.team;
  {
    std::lock_guard<std::mutex> lock(t->mtx);
    if (t->ws_gen == tls.ws_seen) {
      t->ws.is_ull = true;
      t->ws.up = up;
      t->ws.unext = start;
      t->ws.uend = end;
      t->ws.uincr = incr;
      t->ws.uchunk = chunk ? chunk : 1;
      t->ws_gen++;
    }
    tls.ws_seen++;
  }
  return next_ull(t, istart, iend);
}
bool GOMP_loop_ull_nonmonotonic_dynamic_next(unsigned long long *istart, unsigned long long *iend)
{
  return next_ull(tls.team, istart, iend);
}
bool GOMP_loop_ull_dynamic_start(bool up, unsigned long long a, unsigned long long b, unsigned long long c,
                                 unsigned long long d, unsigned long long *e, unsigned long long *f)
{
  return GOMP_loop_ull_nonmonotonic_dynamic_start(up, a, b, c, d, e, f);
}
bool GOMP_loop_ull_dynamic_next(unsigned long long *e, unsigned long long *f)
{
  return GOMP_loop_ull_nonmonotonic_dynamic_next(e, f);
}

// explicit tasks: taskloop splits the iterations into tasks; unless 'nogroup' was given the construct
// waits for them (they are run at once here); with 'nogroup' inside an active region they are deferred
// and run at a later task scheduling point - at the latest at the end of the enclosing region
enum { GOMP_TASK_FLAG_UP = 1 << 8, GOMP_TASK_FLAG_GRAINSIZE = 1 << 9, GOMP_TASK_FLAG_NOGROUP = 1 << 11 };

static void taskloop_emit(void (*fn)(void *), void *data, void (*cpyfn)(void *, void *), long arg_size, long arg_align,
                          unsigned flags, unsigned long long s, unsigned long long e, bool is_ull)
{
  (void)arg_align;
  Team *t = tls.team;
  bool defer = (flags & GOMP_TASK_FLAG_NOGROUP) && t && t->nthreads > 1;
  void *arg = malloc((size_t)arg_size + 64);
  if (cpyfn)
    cpyfn(arg, data);
  else
    memcpy(arg, data, (size_t)arg_size);
  if (is_ull) {
    ((unsigned long long *)arg)[0] = s;
    ((unsigned long long *)arg)[1] = e;
  } else {
    ((long *)arg)[0] = (long)s;
    ((long *)arg)[1] = (long)e;
  }
  if (defer) {
    std::lock_guard<std::mutex> lock(t->mtx);
    t->tasks.push_back({fn, arg});
  } else {
    fn(arg);
    free(arg);
  }
}

void GOMP_taskloop(void (*fn)(void *), void *data, void (*cpyfn)(void *, void *), long arg_size, long arg_align, unsigned flags,
                   unsigned long num_tasks, int /*priority*/, long start, long end, long step)
{
  if (step == 0 || (step > 0 ? start >= end : start <= end))
    return;
  unsigned long long n = step > 0 ? ((unsigned long long)(end - start) + (unsigned long long)step - 1) / (unsigned long long)step
                                  : ((unsigned long long)(start - end) + (unsigned long long)(-step) - 1) / (unsigned long long)(-step);
  unsigned long long per = 1;
  if (flags & GOMP_TASK_FLAG_GRAINSIZE)
    per = num_tasks ? num_tasks : 1;
  else if (num_tasks)
    per = (n + num_tasks - 1) / num_tasks;
  for (unsigned long long i = 0; i < n; i += per) {
    unsigned long long cnt = i + per <= n ? per : n - i;
    long s = start + (long)i * step;
    long e2 = s + (long)cnt * step;
    taskloop_emit(fn, data, cpyfn, arg_size, arg_align, flags, (unsigned long long)s, (unsigned long long)e2, false);
  }
}

void GOMP_taskloop_ull(void (*fn)(void *), void *data, void (*cpyfn)(void *, void *), long arg_size, long arg_align, unsigned flags,
                       unsigned long num_tasks, int /*priority*/, unsigned long long start, unsigned long long end,
                       unsigned long long step)
{
  bool up = flags & GOMP_TASK_FLAG_UP;
  if (step == 0 || (up ? start >= end : start <= end))
    return;
  unsigned long long n = up ? (end - start + step - 1) / step : (start - end + (0 - step) - 1) / (0 - step);
  unsigned long long per = 1;
  if (flags & GOMP_TASK_FLAG_GRAINSIZE)
    per = num_tasks ? num_tasks : 1;
  else if (num_tasks)
    per = (n + num_tasks - 1) / num_tasks;
  for (unsigned long long i = 0; i < n; i += per) {
    unsigned long long cnt = i + per <= n ? per : n - i;
    unsigned long long s = start + i * step;
    unsigned long long e2 = s + cnt * step;
    taskloop_emit(fn, data, cpyfn, arg_size, arg_align, flags, s, e2, true);
  }
}

void GOMP_taskwait(void)
{
  if (tls.team)
    drain_tasks(tls.team);
}
void GOMP_taskgroup_start(void) {}
void GOMP_taskgroup_end(void)
{
  if (tls.team)
    drain_tasks(tls.team);
}

void GOMP_loop_end_nowait(void) {}
void GOMP_loop_end(void) {}
void GOMP_barrier(void) {}

}  // extern "C"
