// Stub TBB runtime (see tbb/tbbstub.h). Instrumented like the code under test; state lives in the
// DSO image and is reset for every run.
#include "tbb/tbbstub.h"

#include <sched.h>
#include <pthread.h>
#include <unistd.h>

#include <atomic>
#include <condition_variable>
#include <exception>
#include <list>
#include <memory>
#include <mutex>
#include <thread>
#include <vector>

extern "C" unsigned sim_choice(unsigned n);
extern "C" void sim_fail_nonfatal(const char *cls, const char *fmt, ...);

namespace tbbstub {

namespace {
std::mutex g_mtx;
std::list<int> g_controls;       // active max_allowed_parallelism values
int g_active = 0;                // threads currently executing parallel_for work (incl. callers)
thread_local int tl_depth = 0;   // this thread is inside run_parallel

int default_parallelism()
{
  // like the real library: the CPUs this process may run on (affinity mask), not the CPUs that are online
  cpu_set_t set;
  if (sched_getaffinity(0, sizeof set, &set) == 0 && CPU_COUNT(&set) > 0)
    return CPU_COUNT(&set);
  long n = sysconf(_SC_NPROCESSORS_ONLN);
  return n > 0 ? (int)n : 1;
}
int limit_locked()
{
  int v = default_parallelism();
  bool any = false;
  for (int c : g_controls)
    if (!any || c < v) {
      v = c;
      any = true;
    }
  return v < 1 ? 1 : v;
}

struct Job
{
  std::atomic<unsigned long long> next{0};
  unsigned long long count;
  unsigned long long chunk;
  void (*body)(void *, unsigned long long);
  void *ctx;
  Context *group;
  std::mutex emtx;
  std::exception_ptr error;
};

void work(Job *j)
{
  tl_depth++;
  for (;;) {
    if (j->group->cancelled)
      break;  // tasks of a cancelled group are not executed
    unsigned long long s = j->next.fetch_add(j->chunk);
    if (s >= j->count)
      break;
    unsigned long long e = s + j->chunk < j->count ? s + j->chunk : j->count;
    try {
      for (unsigned long long i = s; i < e && !j->group->cancelled; i++)
        j->body(j->ctx, i);
    } catch (...) {
      std::lock_guard<std::mutex> lock(j->emtx);
      if (!j->error)
        j->error = std::current_exception();
      j->group->cancelled = true;
    }
  }
  tl_depth--;
}
}  // namespace

int active_parallelism()
{
  std::lock_guard<std::mutex> lock(g_mtx);
  return limit_locked();
}

void *control_push(int n)
{
  std::lock_guard<std::mutex> lock(g_mtx);
  g_controls.push_back(n);
  return new std::list<int>::iterator(std::prev(g_controls.end()));
}
void control_pop(void *h)
{
  std::lock_guard<std::mutex> lock(g_mtx);
  auto *it = (std::list<int>::iterator *)h;
  g_controls.erase(*it);
  delete it;
}

void run_parallel(unsigned long long count, void (*body)(void *, unsigned long long), void *ctx, Context *group)
{
  Context implicit;  // every call without an explicit context gets a fresh one
  Job job;
  job.count = count;
  job.body = body;
  job.ctx = ctx;
  job.group = group ? group : &implicit;
  static const unsigned long long chunks[] = {1, 1, 2, 3};
  job.chunk = chunks[sim_choice(4)];
  int helpers = 0;
  bool outer = tl_depth == 0;
  {
    std::lock_guard<std::mutex> lock(g_mtx);
    int lim = limit_locked();
    if (outer)
      g_active++;  // the calling thread takes part
    int room = lim - g_active;
    unsigned long long want = count > 0 ? (count - 1 + job.chunk - 1) / job.chunk : 0;
    helpers = room < 0 ? 0 : room;
    if ((unsigned long long)helpers > want)
      helpers = (int)want;
    if (helpers > 0)
      helpers = 1 + (int)sim_choice((unsigned)helpers);  // the pool may have fewer idle workers than allowed
    g_active += helpers;
  }
  std::vector<std::thread> ths;
  for (int i = 0; i < helpers; i++)
    ths.emplace_back([&job]() { work(&job); });
  work(&job);
  for (auto &t : ths)
    t.join();
  {
    std::lock_guard<std::mutex> lock(g_mtx);
    g_active -= helpers;
    if (outer)
      g_active--;
  }
  if (job.error)
    std::rethrow_exception(job.error);
}

void enqueue(std::function<void()> f)
{
  std::thread t([f]() { f(); });
  t.detach();
}

struct Spawned
{
  std::function<void()> f;
  bool taken = false;  // guarded by the group's mutex: the task is executed by whoever takes it first
};
struct Group
{
  std::mutex m;
  std::vector<std::thread> running;
  std::vector<std::shared_ptr<Spawned>> deferred;
};
Group *group_create() { return new Group(); }
static void take_and_run(Group *g, const std::shared_ptr<Spawned> &s)
{
  {
    std::lock_guard<std::mutex> lock(g->m);
    if (s->taken)
      return;
    s->taken = true;
  }
  s->f();
}
void group_run(Group *g, std::function<void()> f)
{
  // Optional parallelism: a spawned task is executed by a worker thread that steals it (workers are woken when something is
  // spawned) or by the thread that waits for the group, whoever gets to it first. When the parallelism limit leaves no worker
  // besides the caller, nobody but a waiting thread ever executes it.
  bool no_worker;
  {
    std::lock_guard<std::mutex> lock(g_mtx);
    no_worker = limit_locked() <= 1;
  }
  if (no_worker) {
    auto s = std::make_shared<Spawned>();
    s->f = std::move(f);
    std::lock_guard<std::mutex> lock(g->m);
    g->deferred.push_back(s);
  } else if (sim_choice(3) == 2) {
    auto s = std::make_shared<Spawned>();
    s->f = std::move(f);
    std::thread t([g, s]() { take_and_run(g, s); });
    std::lock_guard<std::mutex> lock(g->m);
    g->deferred.push_back(s);
    g->running.push_back(std::move(t));
  } else {
    std::thread t([f]() { f(); });
    std::lock_guard<std::mutex> lock(g->m);
    g->running.push_back(std::move(t));
  }
}
void group_enqueue(Group *g, std::function<void()> f)
{
  // enqueued, not spawned: a worker executes it (one is created if the limit leaves none); a thread waiting for the group may get
  // to it first
  if (sim_choice(3) == 2) {
    auto s = std::make_shared<Spawned>();
    s->f = std::move(f);
    std::thread t([g, s]() { take_and_run(g, s); });
    std::lock_guard<std::mutex> lock(g->m);
    g->deferred.push_back(s);
    g->running.push_back(std::move(t));
  } else {
    std::thread t([f]() { f(); });
    std::lock_guard<std::mutex> lock(g->m);
    g->running.push_back(std::move(t));
  }
}
void group_wait(Group *g)
{
  std::vector<std::thread> r;
  std::vector<std::shared_ptr<Spawned>> d;
  {
    std::lock_guard<std::mutex> lock(g->m);
    r.swap(g->running);
    d.swap(g->deferred);
  }
  for (auto &s : d)
    take_and_run(g, s);
  for (auto &t : r)
    t.join();
}
void group_destroy(Group *g)
{
  bool pending;
  {
    std::lock_guard<std::mutex> lock(g->m);
    pending = !g->running.empty() || !g->deferred.empty();
  }
  if (pending)  // real TBB: ~task_group throws tbb::missing_wait (terminates from a destructor)
    sim_fail_nonfatal("tbb-contract:task_group-destroyed-without-wait", "task_group destroyed while tasks are pending (tbb::missing_wait)");
  group_wait(g);
  delete g;
}

}  // namespace tbbstub


// ---- tbbmalloc's aligned allocation over the per-run arena -------------------------------------------------------------------
#include <new>
#include <stdint.h>

#include <string.h>

#include "tbb/scalable_allocator.h"
namespace {
struct AlignedHeader
{
  void *raw;
  size_t size;
  uint64_t magic;
};
const uint64_t ALIGNED_MAGIC = 0x7bbA11ca7edULL;
const uint64_t CACHED_MAGIC = 0x7bbCAC4ed00ULL;
// Like the real library, the stub can keep released large blocks in a cache shared by all threads and hand them out again
// (most recently released first), so that an address can come back to another thread right after it was released. Off unless a
// scenario asks for it: a cached block stays 'live' for the arena shadow.
int g_recycle = 0;
int g_live_blocks = 0;
std::mutex g_cache_mtx;
struct Cached
{
  void *p;
  size_t capacity;
};
enum { CACHE_SLOTS = 8 };
Cached g_cache[CACHE_SLOTS];
int g_cached = 0;
}  // namespace
extern "C" {
void tbbstub_set_recycle(int on) { g_recycle = on; }
int tbbstub_live_blocks(void)
{
  std::lock_guard<std::mutex> lock(g_cache_mtx);
  return g_live_blocks;
}
void *scalable_aligned_malloc(size_t size, size_t alignment)
{
  if (alignment == 0 || (alignment & (alignment - 1)) || size > (size_t)1 << 40)
    return nullptr;
  if (alignment < sizeof(void *))
    alignment = sizeof(void *);
  if (g_recycle) {
    std::lock_guard<std::mutex> lock(g_cache_mtx);
    for (int i = g_cached - 1; i >= 0; i--) {
      Cached c = g_cache[i];
      if (c.capacity >= size && c.capacity - size <= size / 4 + 4096 && ((uintptr_t)c.p & (alignment - 1)) == 0) {
        for (int k = i; k + 1 < g_cached; k++)
          g_cache[k] = g_cache[k + 1];
        g_cached--;
        AlignedHeader *h = (AlignedHeader *)c.p - 1;
        h->size = size;
        h->magic = ALIGNED_MAGIC;
        g_live_blocks++;
        return c.p;
      }
    }
  }
  void *raw = ::operator new(size + alignment + sizeof(AlignedHeader), std::nothrow);
  if (!raw)
    return nullptr;
  uintptr_t p = ((uintptr_t)raw + sizeof(AlignedHeader) + alignment - 1) & ~(uintptr_t)(alignment - 1);
  AlignedHeader *h = (AlignedHeader *)p - 1;
  h->raw = raw;
  h->size = size;
  h->magic = ALIGNED_MAGIC;
  {
    std::lock_guard<std::mutex> lock(g_cache_mtx);
    g_live_blocks++;
  }
  return (void *)p;
}
void scalable_aligned_free(void *ptr)
{
  if (!ptr)
    return;
  AlignedHeader *h = (AlignedHeader *)ptr - 1;
  if (h->magic != ALIGNED_MAGIC)
    __builtin_trap();  // not a block of this allocator (or freed twice): the real library would corrupt its heap
  {
    std::lock_guard<std::mutex> lock(g_cache_mtx);
    g_live_blocks--;
    if (g_recycle && h->size >= (1u << 20) && g_cached < CACHE_SLOTS) {
      h->magic = CACHED_MAGIC;
      g_cache[g_cached].p = ptr;
      g_cache[g_cached].capacity = h->size;
      g_cached++;
      return;
    }
  }
  h->magic = 0;
  ::operator delete(h->raw);
}
size_t scalable_msize(void *ptr)
{
  if (!ptr)
    return 0;
  AlignedHeader *h = (AlignedHeader *)ptr - 1;
  return h->magic == ALIGNED_MAGIC ? h->size : 0;
}
// like malloc: suitably aligned for the fundamental types that fit (8 bytes for blocks of up to 8 bytes, else 16) - not more
void *scalable_malloc(size_t size) { return scalable_aligned_malloc(size, size <= 8 ? 8 : 16); }
void scalable_free(void *ptr) { scalable_aligned_free(ptr); }
void *scalable_calloc(size_t nobj, size_t size)
{
  if (size && nobj > (size_t)-1 / size)
    return nullptr;
  void *p = scalable_malloc(nobj * size);
  if (p)
    memset(p, 0, nobj * size);
  return p;
}
void *scalable_aligned_realloc(void *ptr, size_t size, size_t alignment)
{
  if (!ptr)
    return scalable_aligned_malloc(size, alignment);
  if (!size) {
    scalable_aligned_free(ptr);
    return nullptr;
  }
  void *q = scalable_aligned_malloc(size, alignment);
  if (!q)
    return nullptr;
  size_t old = scalable_msize(ptr);
  memcpy(q, ptr, old < size ? old : size);
  scalable_aligned_free(ptr);
  return q;
}
void *scalable_realloc(void *ptr, size_t size) { return scalable_aligned_realloc(ptr, size, 16); }
int scalable_posix_memalign(void **memptr, size_t alignment, size_t size)
{
  if (alignment < sizeof(void *) || (alignment & (alignment - 1)))
    return 22;  // EINVAL
  void *p = scalable_aligned_malloc(size, alignment);
  if (!p)
    return 12;  // ENOMEM
  *memptr = p;
  return 0;
}
}
