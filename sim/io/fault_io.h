// Simulated device layer of the single-task lanes: the stdio file layer served from memory and
// the allocator entry points, both with seeded fault injection. Linked into libsut_asan*.so with
// -Wl,--wrap=..., so every call the library makes to these functions lands here.
#pragma once
#include <stddef.h>
extern "C" {
// file layer
void simio_set_file(const char *path, const unsigned char *data, size_t n);  // the one simulated file
void simio_fail_open(int on);                 // fopen of the simulated path fails (returns NULL)
void simio_short_read_at(long offset);        // fread delivers only the bytes before `offset` (-1: off)
unsigned long simio_stats(int which);         // 0 opens, 1 closes, 2 bytes delivered, 3 short reads, 4 failed opens
void simio_reset(void);
void simio_set_handle_limit(int n);          // fopen fails with EMFILE while n simulated handles are open (0: no limit)
// allocator layer
void simalloc_window(int on);                 // only allocations made while the window is open may fail
void simalloc_fail_at(long nth);              // the nth allocation (0-based) inside windows fails with ENOMEM (-1: off)
unsigned long simalloc_stats(int which);
size_t simalloc_last_size(void);              // size of the most recent request seen inside a window
// requests of 1 GiB or more made inside a window are refused (ENOMEM) without touching the real allocator      // 0 allocations seen in windows, 1 failures injected
}
