#include "fault_io.h"

#include <errno.h>
#include <stdio.h>
#include <stdlib.h>
#include <string.h>
#include <sys/mman.h>
#include <unistd.h>

extern "C" {
FILE *__real_fopen(const char *, const char *);
int __real_fclose(FILE *);
int __real_fseek(FILE *, long, int);
long __real_ftell(FILE *);
size_t __real_fread(void *, size_t, size_t, FILE *);
int __real_posix_memalign(void **, size_t, size_t);
void *__real_malloc(size_t);
}

namespace {
// The simulated file is a real in-memory file (memfd) behind a real FILE*, so that everything a reader
// may do with the stream (fileno, fstat, mmap, ...) works; what is simulated is its content and the
// faults: open failure, descriptor exhaustion, short reads.
struct SimFile
{
  char path[256];
  const unsigned char *data;
  size_t n;
  int fail_open;
  long short_at;
  unsigned long opens, closes, delivered, shorts, failed_opens;
  int handle_limit;
  FILE *open_files[64];
  int nopen;
} sf;

int find_open(FILE *f)
{
  for (int i = 0; i < sf.nopen; i++)
    if (sf.open_files[i] == f)
      return i;
  return -1;
}

int alloc_window = 0;
long alloc_fail_at = -1;
unsigned long alloc_seen = 0, alloc_failed = 0;
size_t alloc_last_size = 0;
}  // namespace

extern "C" {

void simio_reset(void)
{
  for (int i = 0; i < sf.nopen; i++)
    __real_fclose(sf.open_files[i]);  // handles leaked by the previous run
  memset(&sf, 0, sizeof sf);
  sf.short_at = -1;
  alloc_window = 0;
  alloc_fail_at = -1;
  alloc_seen = alloc_failed = 0;
}
void simio_set_file(const char *path, const unsigned char *data, size_t n)
{
  snprintf(sf.path, sizeof sf.path, "%s", path);
  sf.data = data;
  sf.n = n;
}
void simio_fail_open(int on) { sf.fail_open = on; }
void simio_set_handle_limit(int n) { sf.handle_limit = n; }
void simio_short_read_at(long offset) { sf.short_at = offset; }
unsigned long simio_stats(int which)
{
  switch (which) {
  case 0: return sf.opens;
  case 1: return sf.closes;
  case 2: return sf.delivered;
  case 3: return sf.shorts;
  default: return sf.failed_opens;
  }
}

FILE *__wrap_fopen(const char *path, const char *mode)
{
  if (sf.path[0] && !strcmp(path, sf.path)) {
    if (sf.fail_open) {
      sf.failed_opens++;
      errno = ENOENT;
      return nullptr;
    }
    if ((sf.handle_limit > 0 && sf.nopen >= sf.handle_limit) || sf.nopen >= 64) {
      sf.failed_opens++;
      errno = EMFILE;  // the process has run out of descriptors: every earlier open must have been closed
      return nullptr;
    }
    int fd = memfd_create("rksim-file", 0);
    if (fd < 0)
      return nullptr;
    size_t off = 0;
    while (off < sf.n) {
      ssize_t k = write(fd, sf.data + off, sf.n - off);
      if (k <= 0)
        break;
      off += (size_t)k;
    }
    lseek(fd, 0, SEEK_SET);
    FILE *f = fdopen(fd, "r");
    if (!f) {
      close(fd);
      return nullptr;
    }
    sf.open_files[sf.nopen++] = f;
    sf.opens++;
    return f;
  }
  return __real_fopen(path, mode);
}
int __wrap_fclose(FILE *f)
{
  int i = find_open(f);
  if (i >= 0) {
    sf.open_files[i] = sf.open_files[--sf.nopen];
    sf.closes++;
  }
  return __real_fclose(f);
}
int __wrap_fseek(FILE *f, long off, int whence) { return __real_fseek(f, off, whence); }
long __wrap_ftell(FILE *f) { return __real_ftell(f); }
size_t __wrap_fread(void *buf, size_t size, size_t nmemb, FILE *f)
{
  if (find_open(f) >= 0) {
    size_t want = size * nmemb;
    if (sf.short_at >= 0) {
      long pos = __real_ftell(f);
      size_t lim = pos < sf.short_at ? (size_t)(sf.short_at - pos) : 0;
      if (want > lim) {
        want = lim;
        sf.shorts++;
      }
    }
    size_t got = want ? __real_fread(buf, 1, want, f) : 0;
    sf.delivered += got;
    return size ? got / size : 0;
  }
  return __real_fread(buf, size, nmemb, f);
}

void simalloc_window(int on) { alloc_window = on; }
void simalloc_fail_at(long nth) { alloc_fail_at = nth; }
unsigned long simalloc_stats(int which) { return which == 0 ? alloc_seen : alloc_failed; }
size_t simalloc_last_size(void) { return alloc_last_size; }

int __wrap_posix_memalign(void **out, size_t align, size_t size)
{
  if (alloc_window) {
    alloc_last_size = size;
    if (size >= ((size_t)1 << 30))
      return ENOMEM;  // the simulated machine has less than 1 GiB to give
    if ((long)alloc_seen++ == alloc_fail_at) {
      alloc_failed++;
      return ENOMEM;
    }
  }
  return __real_posix_memalign(out, align, size);
}
void *__wrap_malloc(size_t size)
{
  if (alloc_window) {
    alloc_last_size = size;
    if (size >= ((size_t)1 << 30)) {
      errno = ENOMEM;
      return nullptr;
    }
    if ((long)alloc_seen++ == alloc_fail_at) {
      alloc_failed++;
      errno = ENOMEM;
      return nullptr;
    }
  }
  return __real_malloc(size);
}
}
