#include "fault_io.h"

#include <errno.h>
#include <stdio.h>
#include <stdlib.h>
#include <string.h>

extern "C" {
FILE *__real_fopen(const char *, const char *);
int __real_fclose(FILE *);
int __real_fseek(FILE *, long, int);
long __real_ftell(FILE *);
size_t __real_fread(void *, size_t, size_t, FILE *);
int __real_posix_memalign(void **, size_t, size_t);
void *__real_malloc(size_t);
}

namespace {
struct SimFile
{
  char path[256];
  const unsigned char *data;
  size_t n;
  long pos;
  bool open;
  int fail_open;
  long short_at;
  unsigned long opens, closes, delivered, shorts, failed_opens;
  int handle_limit;
} sf;
// a distinguishable, never dereferenced handle
FILE *const SIM_HANDLE = (FILE *)(void *)&sf;

int alloc_window = 0;
long alloc_fail_at = -1;
unsigned long alloc_seen = 0, alloc_failed = 0;
size_t alloc_last_size = 0;
}  // namespace

extern "C" {

void simio_reset(void)
{
  memset(&sf, 0, sizeof sf);
  sf.short_at = -1;
  alloc_window = 0;
  alloc_fail_at = -1;
  alloc_seen = alloc_failed = 0;
}
void simio_set_file(const char *path, const unsigned char *data, size_t n)
{
  snprintf(sf.path, sizeof sf.path, "%s", path);
  sf.data = data;
  sf.n = n;
  sf.pos = 0;
}
void simio_fail_open(int on) { sf.fail_open = on; }
void simio_set_handle_limit(int n) { sf.handle_limit = n; }
void simio_short_read_at(long offset) { sf.short_at = offset; }
unsigned long simio_stats(int which)
{
  switch (which) {
  case 0: return sf.opens;
  case 1: return sf.closes;
  case 2: return sf.delivered;
  case 3: return sf.shorts;
  default: return sf.failed_opens;
  }
}

FILE *__wrap_fopen(const char *path, const char *mode)
{
  if (sf.path[0] && !strcmp(path, sf.path)) {
    if (sf.fail_open) {
      sf.failed_opens++;
      errno = ENOENT;
      return nullptr;
    }
    if (sf.handle_limit > 0 && (long)(sf.opens - sf.closes) >= sf.handle_limit) {
      sf.failed_opens++;
      errno = EMFILE;  // the process has run out of descriptors: every earlier open must have been closed
      return nullptr;
    }
    sf.open = true;
    sf.pos = 0;
    sf.opens++;
    return SIM_HANDLE;
  }
  return __real_fopen(path, mode);
}
int __wrap_fclose(FILE *f)
{
  if (f == SIM_HANDLE) {
    sf.open = false;
    sf.closes++;
    return 0;
  }
  return __real_fclose(f);
}
int __wrap_fseek(FILE *f, long off, int whence)
{
  if (f == SIM_HANDLE) {
    long base = whence == SEEK_SET ? 0 : (whence == SEEK_CUR ? sf.pos : (long)sf.n);
    long np = base + off;
    if (np < 0) {
      errno = EINVAL;
      return -1;
    }
    sf.pos = np;
    return 0;
  }
  return __real_fseek(f, off, whence);
}
long __wrap_ftell(FILE *f)
{
  if (f == SIM_HANDLE)
    return sf.pos;
  return __real_ftell(f);
}
size_t __wrap_fread(void *buf, size_t size, size_t nmemb, FILE *f)
{
  if (f == SIM_HANDLE) {
    size_t want = size * nmemb;
    size_t avail = sf.pos < (long)sf.n ? sf.n - (size_t)sf.pos : 0;
    size_t give = want < avail ? want : avail;
    if (sf.short_at >= 0) {
      size_t lim = sf.pos < sf.short_at ? (size_t)(sf.short_at - sf.pos) : 0;
      if (give > lim) {
        give = lim;
        sf.shorts++;
      }
    }
    if (give)
      memcpy(buf, sf.data + sf.pos, give);
    sf.pos += (long)give;
    sf.delivered += give;
    return size ? give / size : 0;
  }
  return __real_fread(buf, size, nmemb, f);
}

void simalloc_window(int on) { alloc_window = on; }
void simalloc_fail_at(long nth) { alloc_fail_at = nth; }
unsigned long simalloc_stats(int which) { return which == 0 ? alloc_seen : alloc_failed; }
size_t simalloc_last_size(void) { return alloc_last_size; }

int __wrap_posix_memalign(void **out, size_t align, size_t size)
{
  if (alloc_window) {
    alloc_last_size = size;
    if (size >= ((size_t)1 << 30))
      return ENOMEM;  // the simulated machine has less than 1 GiB to give
    if ((long)alloc_seen++ == alloc_fail_at) {
      alloc_failed++;
      return ENOMEM;
    }
  }
  return __real_posix_memalign(out, align, size);
}
void *__wrap_malloc(size_t size)
{
  if (alloc_window) {
    alloc_last_size = size;
    if (size >= ((size_t)1 << 30)) {
      errno = ENOMEM;
      return nullptr;
    }
    if ((long)alloc_seen++ == alloc_fail_at) {
      alloc_failed++;
      errno = ENOMEM;
      return nullptr;
    }
  }
  return __real_malloc(size);
}
}
