// C08 — a chain of reference-counted nodes, each holding the handle to the next. Instrumented half.
#include <stdint.h>
#include <sys/mman.h>

#include <new>

#include "../rt/sim_api.h"
#include "c08c.h"
#include "rkcommon/memory/IntrusivePtr.h"

using rkcommon::memory::IntrusivePtr;
using rkcommon::memory::RefCountedObject;

namespace {
// IntrusivePtr<T> needs a complete T, so the member handle is declared on the base type
struct Item : public RefCountedObject
{
  int id;
  explicit Item(int i) : id(i) {}
};
struct Node : public Item
{
  IntrusivePtr<Item> next;
  explicit Node(int i) : Item(i) {}
  ~Node() override { c08c_node_destroyed(id); }  // reported before the member handle lets go of the next node
};
inline IntrusivePtr<Item> &next_of(IntrusivePtr<Item> &h) { return static_cast<Node *>(h.ptr)->next; }

void counts(Node **raw, int n)
{
  for (int i = 0; i < n; i++)
    if (c08c_alive(i))
      c08c_count(i, raw[i]->useCount());
}
}  // namespace

// a cycle of nodes that only own each other, broken by an assignment to one of the member handles
static void run_cycle(const C08CPlan *p)
{
  SimTag tag(SIM_TAG_SUT);
  const int n = p->n, zid = p->n;
  Node *raw[C08C_MAXN + 1];
  for (int i = 0; i <= n; i++) {
    raw[i] = new Node(i);
    c08c_node_created(i);
  }
  for (int i = 0; i < n; i++) {
    raw[i]->next = raw[(i + 1) % n];
    c08c_linked(i, (i + 1) % n);
  }
  IntrusivePtr<Item> head = raw[0];
  IntrusivePtr<Item> zh = raw[zid];
  for (int i = 0; i <= n; i++)
    raw[i]->refDec();
  c08c_roots(0, -1);
  c08c_zroot(zid);
  counts(raw, n + 1);
  c08c_drop_head_begin();
  head = nullptr;  // the nodes keep each other alive
  c08c_step_end(0, -1);
  counts(raw, n + 1);
  Node *at = raw[p->break_at % n];  // a plain, non-owning pointer
  Item *z = raw[zid];
  const int to = p->break_kind <= 2 ? zid : -1;
  c08c_break_begin(p->break_at % n, to);
  switch (p->break_kind) {
  case 0: at->next = zh; break;
  case 1: at->next = IntrusivePtr<Item>(zh); break;
  case 2: at->next = z; break;
  case 3: at->next = nullptr; break;
  default: at->next = IntrusivePtr<Item>(); break;
  }
  c08c_step_end(1, -1);
  counts(raw, n + 1);
  c08c_step_begin(100, 5);
  c08c_zroot(-1);
  zh = nullptr;
  c08c_step_end(100, -1);
}

// an ownership chain thousands of objects long, released at its head
struct LongNode : public Item
{
  IntrusivePtr<Item> next;
  explicit LongNode(int i) : Item(i) {}
  ~LongNode() override { c08c_long_destroyed(id); }
};
static void run_long(const C08CPlan *p)
{
  SimTag tag(SIM_TAG_SUT);
  c08c_long_begin(p->long_n);
  IntrusivePtr<Item> head;
  for (int i = p->long_n - 1; i >= 0; i--) {  // built from the tail: node i holds node i+1
    LongNode *nd = new LongNode(i);
    nd->next = head;
    head = nd;
    nd->refDec();  // the creator's reference
  }
  head = nullptr;  // the one operation that releases the last reference of every node
  c08c_long_released();
}

// objects far apart in the address space: equality and order of handles are equality and order of the addresses
struct FarObj : public RefCountedObject
{
  static int destroyed;
  int id;
  explicit FarObj(int i) : id(i) {}
  ~FarObj() override { destroyed++; }
  static void operator delete(void *) {}  // lives in reserved address space, not on the heap
};
int FarObj::destroyed = 0;
static void run_far(const C08CPlan *p)
{
  // 20 GiB of reserved (never committed beyond the pages touched) address space at a fixed place
  const uintptr_t base = 0x7c0000000000ULL;
  const size_t span = 20ULL << 30;
  void *m = mmap((void *)base, span, PROT_READ | PROT_WRITE, MAP_PRIVATE | MAP_ANONYMOUS | MAP_NORESERVE | MAP_FIXED, -1, 0);
  if (m != (void *)base) {
    c08c_far_done(-1);
    return;
  }
  static const unsigned long long dist[] = {1ULL << 31, 1ULL << 32, 3ULL << 32, (1ULL << 32) + 64, (1ULL << 33) - 64, 64};
  FarObj::destroyed = 0;
  {
    SimTag tag(SIM_TAG_SUT);
    FarObj *oa = new ((void *)(base + 4096)) FarObj(0);
    IntrusivePtr<FarObj> ha = oa;
    oa->refDec();
    for (int k = 0; k < 6; k++) {
      if (!(p->far_apart >> k & 1))
        continue;
      FarObj *ob = new ((void *)(base + 4096 + dist[k])) FarObj(1 + k);
      IntrusivePtr<FarObj> hb = ob;
      ob->refDec();
      IntrusivePtr<FarObj> ha2 = ha;
      c08c_far_result(k, 0, ha == hb, ha != hb, ha < hb, hb < ha, (unsigned long long)(uintptr_t)oa, (unsigned long long)(uintptr_t)ob);
      c08c_far_result(k, 1, ha == ha2, ha != ha2, ha < ha2, ha2 < ha, (unsigned long long)(uintptr_t)oa, (unsigned long long)(uintptr_t)oa);
    }
  }
  int destroyed = FarObj::destroyed;
  munmap((void *)base, span);
  c08c_far_done(destroyed);
}

extern "C" void c08c_run()
{
  const C08CPlan *p = c08c_plan();
  if (p->far_apart > 0)
    return run_far(p);
  if (p->long_n > 0)
    return run_long(p);
  if (p->cycle)
    return run_cycle(p);
  SimTag tag(SIM_TAG_SUT);
  Node *raw[C08C_MAXN];
  for (int i = 0; i < p->n; i++) {
    raw[i] = new Node(i);
    c08c_node_created(i);
  }
  for (int i = 0; i + 1 < p->n; i++) {
    raw[i]->next = raw[i + 1];
    c08c_linked(i, i + 1);
  }
  IntrusivePtr<Item> head = raw[0];
  IntrusivePtr<Item> keep;
  if (p->keep >= 0)
    keep = raw[p->keep];
  for (int i = 0; i < p->n; i++)
    raw[i]->refDec();  // the creator's reference: the handles own the nodes now
  c08c_roots(0, p->keep);
  counts(raw, p->n);
  for (int k = 0; head; k++) {
    if (k == p->self_at) {
      c08c_step_begin(k, 3);
      head = head;
      c08c_step_end(k, head ? head->id : -1);
      counts(raw, p->n);
      c08c_step_begin(k, 4);
      IntrusivePtr<Item> &same = head;
      head = std::move(same);
      c08c_step_end(k, head ? head->id : -1);
      if (!head)
        break;
      counts(raw, p->n);
    }
    int kind = p->move[k % C08C_MAXN];
    c08c_step_begin(k, kind);
    // the list-walking idiom: the handle on the right lives inside the object the left one is about to release
    if (kind == 0)
      head = next_of(head);
    else if (kind == 1)
      head = std::move(next_of(head));
    else
      head = next_of(head).ptr;
    c08c_step_end(k, head ? head->id : -1);
    counts(raw, p->n);
  }
  c08c_step_begin(100, 5);
  keep = nullptr;
  c08c_step_end(100, -1);
  counts(raw, p->n);
}
