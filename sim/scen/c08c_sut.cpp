// C08 — a chain of reference-counted nodes, each holding the handle to the next. Instrumented half.
#include "../rt/sim_api.h"
#include "c08c.h"
#include "rkcommon/memory/IntrusivePtr.h"

using rkcommon::memory::IntrusivePtr;
using rkcommon::memory::RefCountedObject;

namespace {
// IntrusivePtr<T> needs a complete T, so the member handle is declared on the base type
struct Item : public RefCountedObject
{
  int id;
  explicit Item(int i) : id(i) {}
};
struct Node : public Item
{
  IntrusivePtr<Item> next;
  explicit Node(int i) : Item(i) {}
  ~Node() override { c08c_node_destroyed(id); }  // reported before the member handle lets go of the next node
};
inline IntrusivePtr<Item> &next_of(IntrusivePtr<Item> &h) { return static_cast<Node *>(h.ptr)->next; }

void counts(Node **raw, int n)
{
  for (int i = 0; i < n; i++)
    if (c08c_alive(i))
      c08c_count(i, raw[i]->useCount());
}
}  // namespace

extern "C" void c08c_run()
{
  const C08CPlan *p = c08c_plan();
  SimTag tag(SIM_TAG_SUT);
  Node *raw[C08C_MAXN];
  for (int i = 0; i < p->n; i++) {
    raw[i] = new Node(i);
    c08c_node_created(i);
  }
  for (int i = 0; i + 1 < p->n; i++) {
    raw[i]->next = raw[i + 1];
    c08c_linked(i, i + 1);
  }
  IntrusivePtr<Item> head = raw[0];
  IntrusivePtr<Item> keep;
  if (p->keep >= 0)
    keep = raw[p->keep];
  for (int i = 0; i < p->n; i++)
    raw[i]->refDec();  // the creator's reference: the handles own the nodes now
  c08c_roots(0, p->keep);
  counts(raw, p->n);
  for (int k = 0; head; k++) {
    if (k == p->self_at) {
      c08c_step_begin(k, 3);
      head = head;
      c08c_step_end(k, head ? head->id : -1);
      counts(raw, p->n);
      c08c_step_begin(k, 4);
      IntrusivePtr<Item> &same = head;
      head = std::move(same);
      c08c_step_end(k, head ? head->id : -1);
      if (!head)
        break;
      counts(raw, p->n);
    }
    int kind = p->move[k % C08C_MAXN];
    c08c_step_begin(k, kind);
    // the list-walking idiom: the handle on the right lives inside the object the left one is about to release
    if (kind == 0)
      head = next_of(head);
    else if (kind == 1)
      head = std::move(next_of(head));
    else
      head = next_of(head).ptr;
    c08c_step_end(k, head ? head->id : -1);
    counts(raw, p->n);
  }
  c08c_step_begin(100, 5);
  keep = nullptr;
  c08c_step_end(100, -1);
  counts(raw, p->n);
}
