// C15 — stream serialization. Oracle half: plan, bookkeeping.
#include <stdio.h>
#include <string.h>

#include "../rt/sim_api.h"
#include "a15.h"

namespace {
A15Plan plan;
bool done;
enum { F_CUT = 0, F_CAPACITY };
const char *fault_names[] = {"channel_cut", "capacity_exhausted", nullptr};
enum { P_CUT_MID_VALUE = 0, P_CUT_AT_BOUNDARY, P_ALL_READ, P_EXACT_FIT, P_ONE_OVER, P_REJECTED, P_EMPTY_CONTAINER, P_NESTED_VECTOR, P_READER_ATTACHED, P_LARGE_VALUE, P_HUGE_STRING, P_FLUSHED };
const char *probe_names[] = {"cut_made_a_read_throw", "cut_at_value_boundary", "all_values_read_back", "fixed_writer_exact_fit", "fixed_writer_one_byte_over",
                             "fixed_writer_rejected_a_write", "empty_string_or_vector", "nested_vector", "reader_attached_while_writing_finished", "string_or_vector_of_255_to_2^20_elements", "string_of_16MiB_or_more", "flush_called_on_the_writers", nullptr};
const char *tn[] = {"u8", "i16", "i32", "u64", "float", "double", "pod-struct", "string", "c-string", "vector<int>", "vector<string>", "vector<vector<int>>",
                    "ArrayView", "OwnedArray", "FixedArray", "FixedArrayView", "vector<uint8_t>", "vector<int16_t>", "vector<struct of 3 bytes with member initialisers>",
                    "vector<pair<uint16_t,uint16_t>>", "vector<1-byte struct with a constructor>", "vector<double>", "vector<pod-struct>"};
void reset()
{
  memset(&plan, 0, sizeof plan);
  done = false;
}
void do_plan(int tier)
{
  unsigned m = sim_plan(7);
  plan.mode = m < 2 ? 0 : (m < 4 ? 1 : (m < 6 ? 2 : 3));
  if (plan.mode != 2) {
    plan.nvals = (int)sim_plan(A15_MAXVALS + 1);
    bool huge_used = false;  // at most one string of 16 MiB or more per run
    for (int i = 0; i < plan.nvals; i++) {
      A15Value &v = plan.vals[i];
      v.type = (int)sim_plan(A15_NTYPES);
      v.scalar = sim_plan(1000000);
      static const int lens[] = {0, 1, 2, 3, 15, 16, 17, 40};
      v.len = lens[sim_plan(tier ? 8 : 7)];
      if (v.type == A15_VEC_STRING || v.type == A15_VEC_VEC_INT || v.type == A15_VEC_CSTRING || v.type == A15_VEC_VEC_CSTRING)
        v.len = (int)sim_plan(5);
      // sizes around the powers of two where staging buffers, step sizes and length fields change
      if ((v.type == A15_STRING || v.type == A15_VEC_INT) && sim_plan(40) == 0) {
        static const int big[] = {255, 256, 4095, 4096, 65535, 65536, 65537, (1 << 20) - 1, (1 << 20) + 1};
        v.len = big[sim_plan(v.type == A15_STRING ? 9 : 7)];
        sim_probe(P_LARGE_VALUE);
        if (v.type == A15_STRING && !huge_used && sim_plan(4) == 0) {
          static const int huge[] = {(1 << 24) - 1, 1 << 24, (1 << 24) + 1, 20 << 20, (1 << 25) + 5};
          v.len = huge[sim_plan(5)];
          huge_used = true;
          sim_probe(P_HUGE_STRING);
        }
      }
      for (int k = 0; k < 4; k++)
        v.sub[k] = lens[sim_plan(6)];
      if (v.len == 0 && v.type >= A15_STRING)
        sim_probe(P_EMPTY_CONTAINER);
      if (v.type == A15_VEC_VEC_INT || v.type == A15_VEC_STRING || v.type == A15_VEC_CSTRING || v.type == A15_VEC_VEC_CSTRING)
        sim_probe(P_NESTED_VECTOR);
    }
    plan.cut_choice = (int)sim_plan(1 << 16);
    plan.flush_mask = sim_plan(3) == 0 ? sim_plan(1 << 16) : 0;  // WriteStream::flush() is part of the interface: 'a message is complete'
    if (plan.flush_mask)
      sim_probe(P_FLUSHED);
    plan.reader_at = plan.mode == 3 ? (int)sim_plan((uint32_t)plan.nvals + 1) : 0;
    if (plan.mode == 3 && plan.nvals == 0)
      plan.mode = 0;
  } else {
    plan.nfix = 1 + (int)sim_plan(A15_MAXFIXOPS);
    for (int i = 0; i < plan.nfix; i++) {
      plan.fix[i].reserve = (int)sim_plan(2);
      static const int sizes[] = {0, 1, 2, 3, 4, 8, 16, 31};
      plan.fix[i].size = sizes[sim_plan(8)];
      if (sim_plan(10) == 0)
        plan.fix[i].size = -1 - (int)sim_plan(3);  // a size near SIZE_MAX / 2^63
    }
    plan.capacity_choice = (int)sim_plan(4);
    plan.capacity_random = (int)sim_plan(64);
  }
}
void check()
{
  if (!done && !sim_failed())
    sim_fail("C15:scenario-did-not-finish", "scenario did not reach its end");
}
int stuck(int, char *cls, size_t n)
{
  snprintf(cls, n, "C15:does-not-terminate");
  return 1;
}
void describe(char *buf, size_t n)
{
  int k;
  if (plan.mode != 2) {
    k = snprintf(buf, n, "{\"mode\": \"%s\", \"cut_choice\": %d, \"reader_created_after_values\": %d, \"values\": [",
                 plan.mode == 3 ? "reader attached to a writer that keeps writing" : (plan.mode ? "round trip through a cut channel" : "round trip, fault-free"), plan.cut_choice, plan.reader_at);
    for (int i = 0; i < plan.nvals; i++)
      k += snprintf(buf + k, n - k, "%s\"%s len %d\"", i ? "," : "", tn[plan.vals[i].type], plan.vals[i].len);
    snprintf(buf + k, n - k, "]}");
  } else {
    static const char *cc[] = {"needed-1", "needed", "needed+1", "random"};
    k = snprintf(buf, n, "{\"mode\": \"fixed-capacity writer\", \"capacity\": \"%s\", \"random_capacity\": %d, \"ops\": [", cc[plan.capacity_choice], plan.capacity_random);
    for (int i = 0; i < plan.nfix; i++)
      k += snprintf(buf + k, n - k, "%s\"%s %d\"", i ? "," : "", plan.fix[i].reserve ? "reserve" : (plan.fix[i].size < 0 ? "write(no source)" : "write"), plan.fix[i].size);
    snprintf(buf + k, n - k, "]}");
  }
}
const SimScenario scen = {"c15", "C15", 16, reset, do_plan, a15_run, check, stuck, describe, fault_names, probe_names, 1, 0};
SimRegistrar reg(&scen);
}  // namespace

extern "C" {
const A15Plan *a15_plan() { return &plan; }
void a15_fail(const char *cls, const char *msg) { sim_fail_nonfatal(cls, "%s", msg); }
void a15_probe(int id) { sim_probe(id); }
void a15_note_cut(size_t total, size_t cut, int before, int threw_at)
{
  done = true;
  sim_event(1500, total, cut);
  if (plan.mode == 1 && cut < total) {
    sim_fault(F_CUT, 1, 1);
    if (threw_at >= 0)
      sim_probe(P_CUT_MID_VALUE);
  }
  if (threw_at < 0 && before == plan.nvals)
    sim_probe(P_ALL_READ);
}
void a15_note_fixed(int accepted, int rejected, int exact, int oneover)
{
  done = true;
  sim_event(1501, (uint64_t)accepted, (uint64_t)rejected);
  if (rejected) {
    sim_fault(F_CAPACITY, 1, 1);
    sim_probe(P_REJECTED);
  }
  if (exact)
    sim_probe(P_EXACT_FIT);
  if (oneover)
    sim_probe(P_ONE_OVER);
}
}
