// C13 — configured thread count. Oracle half.
#include <stdio.h>
#include <string.h>

#include "../rt/sim_api.h"
#include "c13.h"

extern "C" unsigned rksim_lane_bit();

namespace {
C13Plan plan;
struct St
{
  bool inited;
  int last_n;          // argument of the latest initTaskingSystem
  int last_positive;   // latest n > 0 (0: none)
  int reported;        // latest numTaskingThreads() (-1: none since the last init)
  int active, max_active;
  int limit;           // what the bound is checked against during a loop
  int nloops;
} st;
enum { P_BOUND_ATTAINED = 0, P_REINIT, P_NONPOSITIVE_FIRST, P_QUERY_BEFORE_INIT, P_N_ABOVE_CORES, P_PARALLEL_GE2, P_NESTED, P_LARGE_N, P_AFFINITY, P_HOP, P_QUERY_IN_BODY };
const char *probe_names[] = {"thread_bound_attained", "reinitialised_with_other_n", "first_init_nonpositive", "queried_before_init",
                             "n_above_core_count", "two_or_more_bodies_simultaneously", "nested_loop_planned", "init_with_16_to_129_threads", "affinity_mask_smaller_than_online_cpus", "operations_carried_out_by_helper_threads", "count_queried_from_inside_a_loop_body", nullptr};
const char *no_faults[] = {nullptr};

void reset()
{
  memset(&plan, 0, sizeof plan);
  memset(&st, 0, sizeof st);
  st.reported = -1;
}
void do_plan(int tier)
{
  bool large = false;
  plan.cores = 2 + (int)sim_plan(5);
  if (sim_plan(40) == 0) {
    large = true;
    // a large machine: the hardware-derived default is large too
    static const int many[] = {16, 32, 64, 128};
    plan.cores = many[sim_plan(tier ? 4 : 3)];
  }
  sim_set_cores(plan.cores);
  plan.affinity = 0;
  if (sim_plan(5) == 0) {
    // the process is confined to fewer CPUs than are online (taskset, container cpuset)
    plan.affinity = 1 + (int)sim_plan((uint32_t)(plan.cores > 16 ? 16 : plan.cores) - 1);
    sim_probe(P_AFFINITY);
  }
  sim_set_affinity(plan.affinity);
  sim_set_tso(sim_plan(4) == 0);
  plan.nops = 2 + (int)sim_plan(8);
  for (int i = 0; i < plan.nops; i++) {
    C13Op &op = plan.ops[i];
    unsigned k = sim_plan(6);
    if (i == 0 && sim_plan(3) == 0)
      k = 2;  // query before initialisation
    if (k < 2) {
      op.kind = C13_INIT;
      unsigned v = sim_plan((uint32_t)(2 * (plan.cores > 8 ? 8 : plan.cores) + 3));
      op.n = v == 0 ? -1 : (v == 1 ? 0 : (int)v - 1);  // -1, 0, 1..2H
      if (sim_plan(24) == 0) {
        // thread counts around the powers of two where a narrow field, a fixed table or a cap would show
        static const int big[] = {16, 17, 31, 32, 33, 63, 64, 65, 100, 127, 128, 129};
        op.n = big[sim_plan(tier ? 12 : 9)];
        if (rksim_lane_bit() == LANE_INTERNAL && op.n > 33)
          op.n = 33;  // enkiTS workers spin before they sleep: a hundred of them cost a minute of simulation per run
        sim_probe(P_LARGE_N);
        large = true;
      }
    } else if (k < 4) {
      op.kind = C13_QUERY;
    } else {
      op.kind = sim_plan(5) == 0 ? C13_NESTED : C13_LOOP;
      static const int counts[] = {1, 2, 3, 5, 8, 13, 24, 40};
      op.n = counts[sim_plan(op.kind == C13_NESTED ? 5 : 8)];
      op.cost = (int)sim_plan(5);
      if (op.kind == C13_NESTED)
        sim_probe(P_NESTED);
    }
  }
  // which thread of the application performs an operation: on the internal back end only queries move (enkiTS allows loops
  // from the initialising thread and from inside tasks only)
  plan.hop_mask = 0;
  if (sim_plan(3) == 0) {
    unsigned m = sim_plan(1u << 10);
    for (int i = 0; i < plan.nops; i++)
      if ((m >> i & 1) && (rksim_lane_bit() != LANE_INTERNAL || plan.ops[i].kind == C13_QUERY))
        plan.hop_mask |= 1u << i;
    if (plan.hop_mask)
      sim_probe(P_HOP);
  }
  // drawn last: loop bodies that ask for the count themselves
  for (int i = 0; i < plan.nops; i++)
    plan.ops[i].query = (plan.ops[i].kind == C13_LOOP || plan.ops[i].kind == C13_NESTED) && sim_plan(3) == 2;
  sim_set_step_cap(large ? 8000000 : 1500000);
}
void check() {}
int stuck(int deadlock, char *cls, size_t n)
{
  if (deadlock) {
    snprintf(cls, n, "C13:deadlock");
    return 1;
  }
  return 0;
}
void describe(char *buf, size_t n)
{
  int k = snprintf(buf, n, "{\"cores\": %d, \"cpus_in_affinity_mask\": %d, \"operations_on_helper_threads_mask\": %u, \"history\": [", plan.cores, plan.affinity ? plan.affinity : plan.cores, plan.hop_mask);
  for (int i = 0; i < plan.nops && k < (int)n - 80; i++) {
    const C13Op &op = plan.ops[i];
    if (op.kind == C13_INIT)
      k += snprintf(buf + k, n - k, "%s\"init(%d)\"", i ? "," : "", op.n);
    else if (op.kind == C13_QUERY)
      k += snprintf(buf + k, n - k, "%s\"numTaskingThreads()\"", i ? "," : "");
    else if (op.kind == C13_NESTED)
      k += snprintf(buf + k, n - k, "%s\"parallel_for(3, parallel_for(%d, cost %d))\"", i ? "," : "", op.n, op.cost);
    else
      k += snprintf(buf + k, n - k, "%s\"parallel_for(%d, cost %d)\"", i ? "," : "", op.n, op.cost);
  }
  snprintf(buf + k, n - k, "]}");
}
const SimScenario scen = {"c13", "C13", LANE_ALL, reset, do_plan, c13_run, check, stuck, describe, no_faults, probe_names, 0};
SimRegistrar reg(&scen);

int expected_limit()
{
  // what numTaskingThreads() must report according to the property (0: only "> 0" is required)
  if (rksim_lane_bit() == LANE_DEBUG)
    return 1;
  if (st.last_n > 0)
    return st.last_n;
  return 0;
}
}  // namespace

extern "C" {
const C13Plan *c13_plan() { return &plan; }

void c13_init_done(int n)
{
  sim_event(130, (uint64_t)(unsigned)n, 0);
  if (st.inited && n > 0 && st.last_positive && n != st.last_positive)
    sim_probe(P_REINIT);
  if (!st.inited && n <= 0)
    sim_probe(P_NONPOSITIVE_FIRST);
  if (n > plan.cores)
    sim_probe(P_N_ABOVE_CORES);
  st.inited = true;
  st.last_n = n;
  if (n > 0)
    st.last_positive = n;
  st.reported = -1;
}

void c13_query(int reported)
{
  sim_event(131, (uint64_t)(unsigned)reported, 0);
  if (!st.inited) {
    sim_probe(P_QUERY_BEFORE_INIT);
    if (reported != 0)
      sim_fail("C13:nonzero-before-initialisation", "numTaskingThreads() = %d before initTaskingSystem()", reported);
    return;
  }
  int exp = expected_limit();
  if (exp > 0 && reported != exp)
    sim_fail("C13:reported-count-wrong", "after initTaskingSystem(%d) numTaskingThreads() = %d, expected %d", st.last_n, reported, exp);
  if (reported <= 0)
    sim_fail("C13:reported-count-not-positive", "after initTaskingSystem(%d) numTaskingThreads() = %d", st.last_n, reported);
  st.reported = reported;
}

void c13_query_in_body(int reported)
{
  // the count is a property of the process, not of the place the question is asked from
  sim_event(136, (uint64_t)(unsigned)reported, 0);
  sim_probe(P_QUERY_IN_BODY);
  int exp = expected_limit();
  if (exp > 0 && reported != exp)
    sim_fail("C13:reported-count-wrong", "after initTaskingSystem(%d) numTaskingThreads() = %d inside a loop body, expected %d", st.last_n, reported, exp);
  if (reported <= 0)
    sim_fail("C13:reported-count-not-positive", "after initTaskingSystem(%d) numTaskingThreads() = %d inside a loop body", st.last_n, reported);
}

void c13_loop_begin(int count)
{
  sim_event(132, (uint64_t)count, 0);
  st.active = 0;
  st.max_active = 0;
  st.nloops++;
  // the limit that applies: n for n > 0 (1 on the serial back end); for a default initialisation
  // whatever the system reports
  int exp = expected_limit();
  st.limit = exp > 0 ? exp : (st.reported > 0 ? st.reported : 0);
  // the default of an initialisation with n <= 0 is only required to be positive; a back end may derive it per calling
  // thread, so what one thread was told does not bound a loop another thread starts
  if (exp <= 0 && plan.hop_mask)
    st.limit = 0;
}
void c13_loop_end()
{
  sim_event(133, (uint64_t)st.max_active, 0);
  if (st.limit > 0 && st.max_active == st.limit)
    sim_probe(P_BOUND_ATTAINED);
  if (st.max_active >= 2)
    sim_probe(P_PARALLEL_GE2);
}
void c13_body_enter()
{
  st.active++;
  sim_event(134, (uint64_t)st.active, 0);
  if (st.active > st.max_active)
    st.max_active = st.active;
  if (st.limit > 0 && st.active > st.limit)
    sim_fail("C13:more-threads-than-configured", "%d loop bodies execute simultaneously, configured thread count is %d (initTaskingSystem(%d))",
             st.active, st.limit, st.last_n);
}
void c13_body_exit()
{
  st.active--;
  sim_event(135, (uint64_t)st.active, 0);
}
}
