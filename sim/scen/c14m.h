#pragma once
// C14 — alignedMalloc / alignedFree called from several threads at once. Shared between the halves.
enum { C14M_ALLOC = 0, C14M_FREE = 1, C14M_VERIFY = 2 };
enum { C14M_MAXT = 3, C14M_MAXOPS = 6, C14M_SLOTS = 2 };
struct C14MOp
{
  int kind, slot, size_idx, align_log2;
};
struct C14MPlan
{
  int nthreads;
  int recycle;   // 1: the allocator behind alignedMalloc keeps released blocks of 1 MiB or more in a shared cache and hands them out again
  int nops[C14M_MAXT];
  C14MOp ops[C14M_MAXT][C14M_MAXOPS];
};
extern "C" {
const C14MPlan *c14m_plan();
unsigned long long c14m_size(int idx);
void c14m_fail(const char *cls, const char *msg);
void c14m_probe(int id);
void c14m_done();
void c14m_backend_live(int blocks);   // blocks the back end still counts as allocated after every block was passed to alignedFree
void c14m_run();
}
