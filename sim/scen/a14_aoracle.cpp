// C14 — aligned allocation. Oracle half: plan and bookkeeping.
#include <stdio.h>
#include <string.h>

#include "../rt/sim_api.h"
#include "a14.h"

extern "C" unsigned rksim_lane_bit();

namespace {
A14Plan plan;
bool done;
const char *fault_names[] = {"allocation_failure", nullptr};
const char *probe_names[] = {"null_returned", "huge_request", "bad_alloc_thrown", "vector_reallocated", "zero_size_request", "length_error_thrown",
                             "free_with_live_neighbours", "alignment_4096", "alignment_64KiB_to_16MiB", nullptr};
const size_t SIZES[] = {0, 1, 7, 8, 63, 64, 65, 4095, 4096, 4097, 1u << 20, (size_t)-1 / 2, (size_t)-1 - 63,
                        (4u << 20) + 100, 5u << 20, (8u << 20) + 1, 20u << 20};

void reset()
{
  memset(&plan, 0, sizeof plan);
  done = false;
}
void do_plan(int tier)
{
  (void)tier;
  unsigned m = sim_plan(10);
  plan.mode = m < 4 ? 0 : (m < 9 ? 1 : 2);
  plan.elem = (int)sim_plan(7);
  plan.nops = 1 + (int)sim_plan(A14_MAXOPS);
  bool big_dance = plan.mode == 0 && sim_plan(3) == 0;
  if (big_dance)
    plan.nops = A14_MAXOPS;
  bool faults = (rksim_lane_bit() == 16 || rksim_lane_bit() == 64) && sim_plan(3) != 0;  // the tbbmalloc lane cannot inject failures
  plan.fail_at = faults ? (long)sim_plan(10) : -1;
  for (int i = 0; i < plan.nops; i++) {
    A14Op &op = plan.ops[i];
    if (plan.mode == 0) {
      unsigned k = sim_plan(6);
      op.kind = k < 3 ? A14_ALLOC : (k < 5 ? A14_FREE : A14_VERIFY);
      op.slot = (int)sim_plan(A14_SLOTS);
      op.size_idx = (int)sim_plan(sizeof SIZES / sizeof SIZES[0]);
      op.align_log2 = (int)sim_plan(13);
      if (sim_plan(16) == 0) {
        // alignments far above a page: 64 KiB, 256 KiB, 2 MiB, 16 MiB
        static const int big_align[] = {16, 18, 21, 24};
        op.align_log2 = big_align[sim_plan(4)];
        sim_probe(8);  // alignment_64KiB_to_16MiB
      }
      if (big_dance) {
        // blocks of several MiB allocated and released next to small ones, few slots: the allocator's
        // large-block paths (mmap threshold, trimming, page-granular releases) get exercised
        static const int pick[] = {13, 14, 15, 16, 13, 14, 5, 2, 9};
        op.size_idx = pick[sim_plan(9)];
        op.slot = (int)sim_plan(4);
        op.align_log2 = 4 + (int)sim_plan(4);
      }
    } else {
      op.kind = (int)sim_plan(A14_V_NOPS);
      static const int ns[] = {0, 1, 2, 3, 7, 16, 17, 64, 100, 200};
      op.n = ns[sim_plan(10)];
      op.val = (int)sim_plan(250);
    }
  }
}
void check()
{
  if (!done && !sim_failed())
    sim_fail("C14:scenario-did-not-finish", "scenario did not reach its end");
}
int stuck(int, char *cls, size_t n)
{
  snprintf(cls, n, "C14:does-not-terminate");
  return 1;
}
void describe(char *buf, size_t n)
{
  static const char *vn[] = {"push_back", "resize", "resize(val)", "reserve", "shrink_to_fit", "assign", "insert", "erase", "swap", "clear", "pop_back", "copy"};
  static const int es[] = {1, 4, 12, 16, 64, 32, 32};  // 5: struct with a std::string, 6: value class constructible from a list of itself
  int k;
  if (plan.mode == 0) {
    k = snprintf(buf, n, "{\"mode\": \"alignedMalloc/alignedFree history\", \"fail_allocation_no\": %ld, \"ops\": [", plan.fail_at);
    for (int i = 0; i < plan.nops && k < (int)n - 100; i++) {
      const A14Op &op = plan.ops[i];
      if (op.kind == A14_ALLOC)
        k += snprintf(buf + k, n - k, "%s\"s%d=alloc(%zu,%d)\"", i ? "," : "", op.slot, SIZES[op.size_idx], 1 << op.align_log2);
      else
        k += snprintf(buf + k, n - k, "%s\"%s s%d\"", i ? "," : "", op.kind == A14_FREE ? "free" : "verify", op.slot);
    }
    snprintf(buf + k, n - k, "]}");
  } else if (plan.mode == 1) {
    k = snprintf(buf, n, "{\"mode\": \"AlignedVector history\", \"element_bytes\": %d, \"fail_allocation_no\": %ld, \"ops\": [", es[plan.elem], plan.fail_at);
    for (int i = 0; i < plan.nops && k < (int)n - 100; i++)
      k += snprintf(buf + k, n - k, "%s\"%s %d\"", i ? "," : "", vn[plan.ops[i].kind], plan.ops[i].n);
    snprintf(buf + k, n - k, "]}");
  } else {
    snprintf(buf, n, "{\"mode\": \"allocator edge requests (max_size()+1, 0, max_size())\"}");
  }
}
const SimScenario scen = {"c14", "C14", 16, reset, do_plan, a14_run, check, stuck, describe, fault_names, probe_names, 1, 0};
SimRegistrar reg(&scen);
// the real tbbmalloc keeps its state across runs: one run per forked child, so that every run sees the
// same allocator state and replays exactly
// the same histories on the real glibc allocator, without any sanitizer: corruption shows as a changed
// pattern in a neighbouring block or as glibc's own consistency abort (one run per forked child)
const SimScenario scen_glibc = {"c14glibc", "C14", 64, reset, do_plan, a14_run, check, stuck, describe, fault_names, probe_names, 1, 1};
SimRegistrar reg_glibc(&scen_glibc);
const SimScenario scen_tbb = {"c14tbb", "C14", 32, reset, do_plan, a14_run, check, stuck, describe, fault_names, probe_names, 1, 1};
SimRegistrar reg_tbb(&scen_tbb);
}  // namespace

extern "C" {
const A14Plan *a14_plan() { return &plan; }
size_t a14_size(int idx) { return SIZES[idx]; }
void a14_fail(const char *cls, const char *msg) { sim_fail_nonfatal(cls, "%s", msg); }
void a14_probe(int id) { sim_probe(id); }
void a14_done(unsigned long seen, unsigned long failed)
{
  done = true;
  sim_event(1400, seen, failed);
  for (unsigned long i = 0; i < failed; i++)
    sim_fault(0, 1, 1);
}
}
