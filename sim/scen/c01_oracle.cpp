// C01 — parallel loops. Oracle half.
#include <semaphore.h>
#include <stdio.h>
#include <string.h>

#include <algorithm>
#include <utility>
#include <vector>

#include "../rt/sim_api.h"
#include "c01.h"

extern "C" unsigned rksim_lane_bit();

namespace {
C01Plan plan;
struct Call
{
  int api, itype, block, nested;
  long long count;
  std::vector<unsigned char> hits;
  std::vector<unsigned char> block_mark;
  std::vector<std::pair<unsigned long long, unsigned long long>> wide;  // BLOCKS_WIDE: the announced blocks
  bool returned;
  int active;
  long long invocations;
  int first_tid;
  bool multi_thread;
};
std::vector<Call> *calls;

enum { P_MULTI_THREAD = 0, P_NEGATIVE, P_ZERO, P_NESTED, P_TYPE_MAX, P_PARTIAL_LAST_BLOCK, P_FROM_TASK, P_COUNT_GT_THREADS, P_PREFILL, P_THROWING_BODY, P_WIDE, P_WIDE_ABOVE_32BIT, P_CONCURRENT_CALLERS };
const char *probe_names[] = {"call_executed_by_more_than_one_thread", "negative_count", "zero_count", "nested_call", "count_is_type_maximum",
                             "last_block_partial", "call_from_inside_task", "count_far_above_thread_count", "scheduled_closures_ran", "loop_with_a_throwing_body_planned", "blocks_of_2^30_or_more", "wide_blocks_count_above_2^32", "calls_made_concurrently_by_several_application_threads", nullptr};
const char *no_faults[] = {nullptr};
const char *tyname[] = {"unsigned char", "short", "int", "unsigned", "long", "long long", "unsigned long long", "size_t"};
const char *apiname[] = {"parallel_for", "parallel_foreach(container)", "parallel_foreach(iterators)", "parallel_in_blocks_of", "parallel_foreach(std::deque)", "parallel_in_blocks_of(wide)"};

int blockers_started, blockers_released;
void reset()
{
  blockers_started = blockers_released = 0;
  memset(&plan, 0, sizeof plan);
  delete calls;
  calls = new std::vector<Call>();
}

long long pick_count(int itype, int nthreads, int tier, bool allow_negative, bool small)
{
  bool is_signed = itype == 1 || itype == 2 || itype == 4 || itype == 5;
  static const long long base[] = {0, 1, 2, 7, 64, 255, 1000};
  unsigned k = sim_plan(small ? 8 : 14);
  long long c;
  switch (k) {
  case 0: c = is_signed && allow_negative ? -5 : 0; break;
  case 1: c = is_signed && allow_negative ? -1 : 1; break;
  case 2: c = 0; break;
  case 3: c = 1; break;
  case 4: c = 2; break;
  case 5: c = nthreads > 1 ? nthreads - 1 : 3; break;
  case 6: c = nthreads > 0 ? nthreads : 4; break;
  case 7: c = nthreads + 1; break;
  case 8: c = 7; break;
  case 9: c = 64; break;
  case 10: c = 255; break;
  case 11: c = tier ? 1000 : 300; break;
  case 12: c = (long long)sim_plan(tier ? 2000 : 130); break;
  default: c = base[sim_plan(7)]; break;
  }
  if (itype == 0 && c > 255)
    c = 255;
  if (itype == 1 && tier && k == 13 && sim_plan(8) == 0)
    c = 32767;
  return c;
}

void do_plan(int tier)
{
  unsigned lane = rksim_lane_bit();
  int nth = 1 + (int)sim_plan(6);
  if (lane == LANE_DEBUG)
    plan.init_threads = 0;
  else
    plan.init_threads = nth;
  if (lane != LANE_DEBUG && sim_plan(8) == 0) {
    plan.init_threads = 0;  // the tasking system is used without having been initialised
    plan.lazy_teardown = lane == LANE_INTERNAL;
  }
  int cores = 2 + (int)sim_plan(5);
  sim_set_cores(cores);
  sim_set_affinity(sim_plan(6) == 0 ? 1 + (int)sim_plan((uint32_t)cores - 1) : 0);  // the process may be confined to fewer CPUs than are online
  sim_set_tso(sim_plan(4) == 0);
  plan.ncalls = 1 + (int)sim_plan(C01_MAXCALLS);
  long long total = 0;
  for (int i = 0; i < plan.ncalls; i++) {
    C01Call &c = plan.calls[i];
    unsigned a = sim_plan(8);
    c.api = a < 3 ? C01_FOR : (a == 3 ? C01_FOREACH_CONT : (a == 4 ? C01_FOREACH_IT : (a == 5 ? C01_BLOCKS : (a == 6 ? C01_FOREACH_DEQUE : C01_BLOCKS_WIDE))));
    c.itype = (int)sim_plan(8);
    if ((c.api == C01_BLOCKS_WIDE || (c.api == C01_BLOCKS && !c01_small_index_blocks())) && c.itype < 2)
      c.itype = 2 + (int)sim_plan(6);
    static const int blocks[] = {1, 3, 16, 64, 300};
    c.block = blocks[sim_plan(5)];
    bool foreach_api = c.api == C01_FOREACH_CONT || c.api == C01_FOREACH_IT || c.api == C01_FOREACH_DEQUE;
    c.count = pick_count(foreach_api ? 7 : c.itype, nth, tier, !foreach_api, false);
    if (foreach_api && c.count == 0)
      c.count = 1;
    if (c.api == C01_BLOCKS_WIDE) {
      // at most 9 blocks, whatever the count
      c.block = sim_plan(2) ? 2147483647 : (1 << 30);
      static const long long c_int[] = {2147483647LL, 2147483646LL, (1LL << 30) + 1, 1LL << 30, (1LL << 30) - 1, 5};
      static const long long c_uint[] = {4294967295LL, 1LL << 31, 3000000000LL, 3LL << 30, (1LL << 31) - 1, 7};
      static const long long c_64[] = {(1LL << 32) + 5, (1LL << 33) - 1, 3 * 2147483647LL + 1, 1LL << 32, 1LL << 31, 1};
      c.count = (c.itype == 2 ? c_int : c.itype == 3 ? c_uint : c_64)[sim_plan(6)];
    }
    c.cost_mod = 1 + (int)sim_plan(4);
    c.cost = c.count > 300 ? 0 : (int)sim_plan(4);
    c.nested_at = -1;
    if (c.api != C01_BLOCKS_WIDE && c.count > 0 && c.count <= 64 && sim_plan(4) == 0) {
      c.nested_at = (int)sim_plan((uint32_t)c.count);
      unsigned ia = sim_plan(4);
      c.inner_api = ia < 2 ? C01_FOR : (ia == 2 ? C01_FOREACH_CONT : C01_BLOCKS);
      c.inner_itype = c01_small_index_blocks() ? (int)sim_plan(8) : 2 + (int)sim_plan(6);
      c.inner_block = blocks[sim_plan(5)];
      c.inner_count = pick_count(c.inner_itype, nth, tier, c.inner_api != C01_FOREACH_CONT, true);
      if (c.inner_api == C01_FOREACH_CONT && c.inner_count <= 0)
        c.inner_count = 2;
      if (c.inner_count > 64)
        c.inner_count = 64;
    }
    c.from_task = c.nested_at < 0 && sim_plan(6) == 0;
    c.prefill = 0;
    c.prefill_block = 0;
    c.throw_at = -1;
    c.functor = c.api == C01_FOR && sim_plan(3) == 0 ? 1 + (int)sim_plan(3) : 0;
    if ((lane == LANE_TBB || lane == LANE_DEBUG) && c.nested_at < 0 && !c.from_task && c.count > 0 && plan.ncalls > 1 && i + 1 < plan.ncalls && sim_plan(8) == 0) {
      c.throw_at = (int)sim_plan((uint32_t)(c.count > 64 ? 64 : c.count));
      sim_probe(P_THROWING_BODY);
    }
    if (!c.from_task && lane != LANE_DEBUG && sim_plan(12) == 0)
      c.prefill = lane == LANE_OMP ? 1 + (int)sim_plan(6) : (sim_plan(2) ? 248 + (int)sim_plan(12) : 300 + (int)sim_plan(300));
    if (c.prefill && (lane == LANE_INTERNAL) && plan.init_threads > 1)
      c.prefill_block = (int)sim_plan(2);
    c.from_task_n = 2 + (int)sim_plan(3);
    total += c.count > 0 && c.api != C01_BLOCKS_WIDE ? c.count : 0;
  }
  // drawn last (earlier draws keep their meaning): concurrent callers. enkiTS documents that only the initialising thread and
  // its tasks may use the scheduler, so the internal lanes are left out.
  plan.concurrent = 0;
  if ((lane == LANE_TBB || lane == LANE_OMP || lane == LANE_DEBUG) && plan.ncalls > 1 && sim_plan(5) == 4) {
    plan.concurrent = 1;
    for (int i = 0; i < plan.ncalls; i++) {
      C01Call &c = plan.calls[i];
      c.from_task = 0;
      c.prefill = c.prefill_block = 0;
      c.throw_at = -1;
    }
    sim_probe(P_CONCURRENT_CALLERS);
  }
  sim_set_step_cap(total > 2000 ? 4000000 : 1200000);
}

void check()
{
  for (size_t h = 0; h < calls->size(); h++)
    if (!(*calls)[h].returned)
      sim_fail("C01:call-never-returned", "call %zu did not return", h);
}

int stuck(int deadlock, char *cls, size_t n)
{
  if (deadlock) {
    snprintf(cls, n, sim_get_phase() >= 3 ? "C01:deadlock-in-teardown" : "C01:join-never-returns");
    return 1;
  }
  return 0;
}

void describe(char *buf, size_t n)
{
  int k = snprintf(buf, n, "{\"init_threads\": %d, \"concurrent_callers\": %d, \"calls\": [", plan.init_threads, plan.concurrent);
  for (int i = 0; i < plan.ncalls && k < (int)n - 400; i++) {
    const C01Call &c = plan.calls[i];
    k += snprintf(buf + k, n - k, "%s{\"api\": \"%s\", \"index_type\": \"%s\", \"count\": %lld, \"block\": %d, \"cost\": \"%d every %d\"", i ? "," : "",
                  apiname[c.api], tyname[c.itype], c.count, c.block, c.cost, c.cost_mod);
    if (c.nested_at >= 0)
      k += snprintf(buf + k, n - k, ", \"nested\": {\"at\": %d, \"api\": \"%s\", \"index_type\": \"%s\", \"count\": %lld, \"block\": %d}", c.nested_at,
                    apiname[c.inner_api], tyname[c.inner_itype], c.inner_count, c.inner_block);
    if (c.from_task)
      k += snprintf(buf + k, n - k, ", \"called_from_task_of\": %d", c.from_task_n);
    if (c.throw_at >= 0)
      k += snprintf(buf + k, n - k, ", \"body_throws_at\": %d", c.throw_at);
    if (c.functor) {
      static const char *fk[] = {"", "temporary lambda owning heap state", "temporary std::function", "named function object"};
      k += snprintf(buf + k, n - k, ", \"body_is\": \"%s\"", fk[c.functor]);
    }
    if (c.prefill)
      k += snprintf(buf + k, n - k, ", \"scheduled_closures_before\": %d, \"workers_occupied_by_long_tasks\": %d", c.prefill, c.prefill_block);
    k += snprintf(buf + k, n - k, "}");
  }
  snprintf(buf + k, n - k, "]}");
}

const SimScenario scen = {"c01", "C01", LANE_ALL, reset, do_plan, c01_run, check, stuck, describe, no_faults, probe_names, 0};
SimRegistrar reg(&scen);
}  // namespace

extern "C" {
const C01Plan *c01_plan() { return &plan; }

int c01_call_begin(int api, int itype, long long count, int block, int nested)
{
  SimOracleScope os;
  Call c;
  c.api = api;
  c.itype = itype;
  c.block = block;
  c.nested = nested;
  c.count = count;
  const bool wide = api == C01_BLOCKS_WIDE;
  c.hits.assign((size_t)(count > 0 && !wide ? count : 0), 0);
  c.block_mark.assign((size_t)(count > 0 && !wide ? count : 0), 0);
  if (wide)
    sim_probe(count > (1LL << 32) ? P_WIDE_ABOVE_32BIT : P_WIDE);
  c.returned = false;
  c.active = 0;
  c.invocations = 0;
  c.first_tid = -1;
  c.multi_thread = false;
  calls->push_back(c);
  int h = (int)calls->size() - 1;
  sim_event(100, (uint64_t)h, (uint64_t)count);
  if (count < 0)
    sim_probe(P_NEGATIVE);
  if (count == 0)
    sim_probe(P_ZERO);
  if (nested)
    sim_probe(P_NESTED);
  if ((itype == 0 && count == 255) || (itype == 1 && count == 32767))
    sim_probe(P_TYPE_MAX);
  if (api == C01_BLOCKS && count > 0 && count % block)
    sim_probe(P_PARTIAL_LAST_BLOCK);
  if (plan.init_threads && count > 8LL * plan.init_threads && !wide)
    sim_probe(P_COUNT_GT_THREADS);
  if (sim_self() != 0)
    sim_probe(P_FROM_TASK);
  return h;
}

void c01_call_end(int h)
{
  SimOracleScope os;
  Call &c = (*calls)[(size_t)h];
  sim_event(101, (uint64_t)h, (uint64_t)c.invocations);
  c.returned = true;
  if (c.active)
    sim_fail("C01:returned-while-body-running", "call %d (%s, count %lld) returned while %d invocations are still executing", h, apiname[c.api],
             c.count, c.active);
  if (c.api == C01_BLOCKS_WIDE) {
    // the announced blocks, in index order, must tile [0,count) exactly
    std::sort(c.wide.begin(), c.wide.end());
    unsigned long long at = 0;
    for (size_t k = 0; k < c.wide.size(); k++) {
      if (c.wide[k].first != at) {
        sim_fail("C01:blocks-do-not-partition-range", "call %d (parallel_in_blocks_of<%d>, %s, count %lld): %s [%llu,%llu) in the announced blocks", h,
                 c.block, tyname[c.itype], c.count, c.wide[k].first < at ? "overlap before" : "gap", c.wide[k].first < at ? c.wide[k].first : at,
                 c.wide[k].first < at ? at : c.wide[k].first);
        break;
      }
      at = c.wide[k].second;
    }
    if (at != (unsigned long long)c.count && !sim_failed())
      sim_fail("C01:index-not-invoked", "call %d (parallel_in_blocks_of<%d>, %s, count %lld): %zu blocks were invoked, they end at %llu", h, c.block,
               tyname[c.itype], c.count, c.wide.size(), at);
  }
  for (long long i = 0; i < c.count && c.api != C01_BLOCKS_WIDE; i++)
    if (c.hits[(size_t)i] != 1) {
      sim_fail("C01:index-not-invoked", "call %d (%s<%s>, count %lld): index %lld invoked %d times when the call returned", h, apiname[c.api],
               tyname[c.itype], c.count, i, (int)c.hits[(size_t)i]);
      break;
    }
  if (c.multi_thread)
    sim_probe(P_MULTI_THREAD);
}

void c01_call_aborted(int h)
{
  SimOracleScope os;
  Call &c = (*calls)[(size_t)h];
  sim_event(105, (uint64_t)h, (uint64_t)c.invocations);
  c.returned = true;
  // a loop that ended with its body's exception may have skipped indices; everything else still holds
  if (c.active)
    sim_fail("C01:returned-while-body-running", "call %d ended with an exception while %d invocations are still executing", h, c.active);
}

int c01_body(int h, long long idx)
{
  SimOracleScope os;
  Call &c = (*calls)[(size_t)h];
  sim_event(102, (uint64_t)h, (uint64_t)idx);
  c.invocations++;
  c.active++;
  int tid = sim_self();
  if (c.first_tid < 0)
    c.first_tid = tid;
  else if (tid != c.first_tid)
    c.multi_thread = true;
  if (c.returned)
    sim_fail("C01:body-after-return", "call %d: index %lld invoked after the call returned", h, idx);
  if (c.count <= 0)
    sim_fail("C01:invoked-for-nonpositive-count", "call %d (%s<%s>): count %lld must invoke nothing, but index %lld was invoked", h, apiname[c.api],
             tyname[c.itype], c.count, idx);
  if (idx < 0 || idx >= c.count)
    sim_fail("C01:index-out-of-range", "call %d (%s<%s>, count %lld): invoked for index %lld", h, apiname[c.api], tyname[c.itype], c.count, idx);
  if (c.api == C01_BLOCKS && !c.block_mark[(size_t)idx])
    sim_fail("C01:index-outside-its-block", "call %d: index %lld visited outside an announced block", h, idx);
  if (++c.hits[(size_t)idx] > 1)
    sim_fail("C01:index-invoked-twice", "call %d (%s<%s>, count %lld): index %lld invoked a second time", h, apiname[c.api], tyname[c.itype],
             c.count, idx);
  return 1;
}

int c01_block(int h, long long begin, long long end)
{
  SimOracleScope os;
  Call &c = (*calls)[(size_t)h];
  sim_event(103, (uint64_t)begin, (uint64_t)end);
  if (c.returned)
    sim_fail("C01:body-after-return", "call %d: block [%lld,%lld) invoked after the call returned", h, begin, end);
  if (c.count <= 0)
    sim_fail("C01:invoked-for-nonpositive-count", "call %d: count %lld must invoke nothing, but block [%lld,%lld) was invoked", h, c.count, begin, end);
  if (begin < 0 || end > c.count || begin >= end)
    sim_fail("C01:block-out-of-range", "call %d (parallel_in_blocks_of<%d>, %s, count %lld): block [%lld,%lld)", h, c.block, tyname[c.itype], c.count,
             begin, end);
  if (end - begin > c.block)
    sim_fail("C01:block-too-large", "call %d: block [%lld,%lld) larger than block size %d", h, begin, end, c.block);
  for (long long i = begin; i < end; i++) {
    if (c.block_mark[(size_t)i])
      sim_fail("C01:blocks-overlap", "call %d: index %lld is in two blocks", h, i);
    c.block_mark[(size_t)i] = 1;
  }
  return 1;
}

void c01_wide_block(int h, unsigned long long begin, unsigned long long end, int is_signed)
{
  SimOracleScope os;
  Call &c = (*calls)[(size_t)h];
  sim_event(106, (uint64_t)begin, (uint64_t)end);
  c.invocations++;
  c.active++;
  int tid = sim_self();
  if (c.first_tid < 0)
    c.first_tid = tid;
  else if (tid != c.first_tid)
    c.multi_thread = true;
  if (c.returned)
    sim_fail("C01:body-after-return", "call %d: block [%llu,%llu) invoked after the call returned", h, begin, end);
  if (c.count <= 0)
    sim_fail("C01:invoked-for-nonpositive-count", "call %d: count %lld must invoke nothing, but a block was invoked", h, c.count);
  bool negative = is_signed && ((long long)begin < 0 || (long long)end < 0);
  if (negative || end > (unsigned long long)c.count || begin >= end)
    sim_fail("C01:block-out-of-range", "call %d (parallel_in_blocks_of<%d>, %s, count %lld): block [%lld,%lld)", h, c.block, tyname[c.itype], c.count,
             (long long)begin, (long long)end);
  if (end - begin > (unsigned long long)c.block)
    sim_fail("C01:block-too-large", "call %d: block [%llu,%llu) larger than block size %d", h, begin, end, c.block);
  c.wide.push_back(std::make_pair(begin, end));
}

void c01_body_exit(int h)
{
  Call &c = (*calls)[(size_t)h];
  sim_event(104, (uint64_t)h, 0);
  c.active--;
}

void c01_prefill_ran(void) { sim_probe(P_PREFILL); }
void c01_state_lost(int h, long long idx, int where)
{
  if (where)
    sim_fail("C01:callers-function-object-emptied", "call %d: the named function object passed to parallel_for was emptied by the call", h);
  else
    sim_fail("C01:body-state-lost", "call %d: index %lld was invoked on a function object that has lost the state it was created with", h, idx);
}
static sem_t blocker_sem;  // modelled by the simulator; a thread blocked on it uses up none of the run's step budget
void c01_blocker(void)
{
  // with a full pipe enkiTS runs a scheduled function on the scheduling thread itself: the placeholder must not make the
  // caller wait for a release only the caller can give
  if (sim_self() == 0)
    return;
  blockers_started++;
  while (!blockers_released)
    sem_wait(&blocker_sem);
}
void c01_wait_blockers(int n)
{
  unsigned long long bound = sim_steps() + 200000;
  while (blockers_started < n && sim_steps() < bound)
    sim_yield();
}
void c01_release_blockers(void)
{
  blockers_released = 1;
  for (int i = 0; i < blockers_started; i++)
    sem_post(&blocker_sem);
}

void c01_slot_check(int h, long long idx, int value)
{
  if (value != 7000 + (int)(idx & 0xfff))
    sim_fail("C01:effect-not-visible", "call %d: the caller reads slot %lld = %d after the call returned (expected %d)", h, idx, value,
             7000 + (int)(idx & 0xfff));
}
}
