// C08 — chain of nodes. Oracle half: reachability model (a node exists exactly as long as a handle reaches it).
#include <stdio.h>
#include <string.h>

#include <vector>

#include "../rt/sim_api.h"
#include "c08c.h"

namespace {
C08CPlan plan;
struct M
{
  int link[C08C_MAXN + 1];     // node the member handle points at, -1 none
  bool created[C08C_MAXN + 1];
  int destroyed[C08C_MAXN + 1];
  bool gone[C08C_MAXN + 1];     // the model has released the node
  int head, keep, zroot;   // -1: empty
  bool rooted;
  int step, kind;
  bool in_step;
  bool finished;
} m;
enum { P_MOVE_ADVANCE = 0, P_COPY_ADVANCE, P_RAW_ADVANCE, P_KEPT_NODE, P_SELF_ASSIGN, P_LAST_REF_BY_ASSIGN, P_CYCLE, P_LONG_CHAIN, P_FAR_APART };
int far_expected, far_done_seen;
const char *probe_names[] = {"advanced_by_move_assignment", "advanced_by_copy_assignment", "advanced_by_raw_pointer_assignment", "node_held_by_a_second_handle",
                             "self_assignment_executed", "assignment_released_the_object_holding_its_source", "ownership_cycle_broken_by_assigning_to_a_member_handle", "chain_of_1500_to_5000_objects_released_at_its_head", "handles_to_objects_2^31_or_more_bytes_apart_compared", nullptr};
const char *no_faults[] = {nullptr};
std::vector<unsigned char> *long_seen;
int long_destroyed;
bool long_done;

void reset()
{
  memset(&plan, 0, sizeof plan);
  memset(&m, 0, sizeof m);
  long_done = false;
  long_destroyed = 0;
  far_expected = far_done_seen = 0;
  for (int i = 0; i <= C08C_MAXN; i++)
    m.link[i] = -1;
  m.head = m.keep = m.zroot = -1;
}
void do_plan(int)
{
  plan.n = 2 + (int)sim_plan(C08C_MAXN - 1);
  plan.keep = sim_plan(3) == 0 ? (int)sim_plan((uint32_t)plan.n) : -1;
  for (int k = 0; k < C08C_MAXN; k++)
    plan.move[k] = (int)sim_plan(3);
  plan.self_at = sim_plan(4) == 0 ? (int)sim_plan((uint32_t)plan.n) : -1;
  plan.far_apart = 0;
  if (sim_plan(30) == 0) {
    plan.far_apart = 1 + (int)sim_plan(63);
    sim_probe(P_FAR_APART);
    return;
  }
  plan.long_n = 0;
  if (sim_plan(40) == 0) {
    // depth is an input size too: thousands of objects that each hold the only reference to the next
    plan.long_n = 1500 + (int)sim_plan(3500);
    sim_probe(P_LONG_CHAIN);
    sim_set_step_cap(4000000);
    return;
  }
  plan.cycle = sim_plan(5) == 0;
  if (plan.cycle) {
    plan.n = 1 + (int)sim_plan(4);  // 1: a node that owns itself
    plan.break_at = (int)sim_plan((uint32_t)plan.n);
    plan.break_kind = (int)sim_plan(5);
    sim_probe(P_CYCLE);
  }
  if (plan.keep >= 0)
    sim_probe(P_KEPT_NODE);
}
// reference-counting semantics: a node exists as long as an outside handle or the member handle of an existing node
// refers to it (so the nodes of a cycle keep each other, which reachability from outside would not say)
void reach(bool *r)
{
  for (int i = 0; i <= C08C_MAXN; i++)
    r[i] = m.created[i] && !m.gone[i];
  for (bool changed = true; changed;) {
    changed = false;
    for (int i = 0; i <= C08C_MAXN; i++) {
      if (!r[i])
        continue;
      int c = (m.head == i) + (m.keep == i) + (m.zroot == i);
      for (int j = 0; j <= C08C_MAXN; j++)
        if (r[j] && m.link[j] == i)
          c++;
      if (c == 0 && m.rooted) {
        r[i] = false;
        changed = true;
      }
    }
  }
  for (int i = 0; i <= C08C_MAXN; i++)
    if (m.created[i] && !r[i] && m.rooted)
      m.gone[i] = true;  // once released, always released
}
long long expected_count(int id)
{
  bool r[C08C_MAXN + 1];
  reach(r);
  long long c = (m.head == id) + (m.keep == id) + (m.zroot == id);
  for (int i = 0; i <= plan.n; i++)
    if (r[i] && m.link[i] == id)
      c++;
  return c;
}
void settle(const char *when)
{
  bool r[C08C_MAXN + 1];
  reach(r);
  for (int i = 0; i <= plan.n; i++)
    if (m.created[i] && !r[i] && m.destroyed[i] == 0)
      sim_fail("C08:chain:not-destroyed-at-last-release", "node %d is no longer referenced %s but was not destroyed", i, when);
}
void check()
{
  if (plan.far_apart > 0) {
    if (!far_done_seen && !sim_failed())
      sim_fail("C08:chain:scenario-did-not-finish", "the comparison of far-apart handles did not finish");
    return;
  }
  if (plan.long_n > 0) {
    if (!long_done && !sim_failed())
      sim_fail("C08:chain:scenario-did-not-finish", "the release of the long chain did not return");
    return;
  }
  if (!m.finished && !sim_failed())
    sim_fail("C08:chain:scenario-did-not-finish", "the walk over the chain did not reach its end");
  for (int i = 0; i <= plan.n; i++)
    if (m.created[i] && m.destroyed[i] != 1 && !sim_failed())
      sim_fail("C08:chain:destroy-count", "node %d destroyed %d times", i, m.destroyed[i]);
}
int stuck(int deadlock, char *cls, size_t n)
{
  if (deadlock) {
    snprintf(cls, n, "C08:chain:deadlock");
    return 1;
  }
  return 0;
}
void describe(char *buf, size_t n)
{
  if (plan.far_apart > 0) {
    snprintf(buf, n, "{\"handles_compared_for_objects_apart_by_mask\": %d, \"distances\": \"2^31, 2^32, 3*2^32, 2^32+64, 2^33-64, 64\"}", plan.far_apart);
    return;
  }
  if (plan.long_n > 0) {
    snprintf(buf, n, "{\"chain_of_nodes\": %d, \"operation\": \"head = nullptr\"}", plan.long_n);
    return;
  }
  if (plan.cycle) {
    static const char *bk[] = {"a handle to another object", "a temporary handle to another object", "another object's plain pointer", "nullptr", "an empty handle"};
    snprintf(buf, n, "{\"cycle_of_nodes\": %d, \"member_handle_of_node\": %d, \"is_assigned\": \"%s\"}", plan.n, plan.break_at, bk[plan.break_kind]);
    return;
  }
  int k = snprintf(buf, n, "{\"nodes\": %d, \"node_also_held_from_outside\": %d, \"self_assignments_before_step\": %d, \"advance\": [", plan.n, plan.keep, plan.self_at);
  static const char *nm[] = {"head = head->next", "head = std::move(head->next)", "head = head->next.ptr"};
  for (int i = 0; i < plan.n; i++)
    k += snprintf(buf + k, n - k, "%s\"%s\"", i ? "," : "", nm[plan.move[i % C08C_MAXN]]);
  snprintf(buf + k, n - k, "]}");
}
const SimScenario scen = {"c08chain", "C08", LANE_DEBUG, reset, do_plan, c08c_run, check, stuck, describe, no_faults, probe_names, 0};
SimRegistrar reg(&scen);
}  // namespace

extern "C" {
const C08CPlan *c08c_plan() { return &plan; }
void c08c_node_created(int id)
{
  sim_event(810, (uint64_t)id, 0);
  m.created[id] = true;
}
void c08c_linked(int from, int to)
{
  sim_event(811, (uint64_t)from, (uint64_t)to);
  m.link[from] = to;
}
void c08c_roots(int head, int keep)
{
  sim_event(812, (uint64_t)head, (uint64_t)(unsigned)keep);
  m.head = head;
  m.keep = keep;
  m.rooted = true;
}
void c08c_far_result(int which, int a_is_b, int eq, int ne, int lt, int gt, unsigned long long addr_a, unsigned long long addr_b)
{
  sim_event(830, (uint64_t)which << 8 | (uint64_t)a_is_b, (uint64_t)(eq | ne << 1 | lt << 2 | gt << 3));
  far_expected++;
  bool same = addr_a == addr_b;
  if ((eq != 0) != same || (ne != 0) == same)
    sim_fail("C08:handles-compare-wrong", "handles to %s (addresses %#llx and %#llx): == gives %d, != gives %d", same ? "the same object" : "two different objects",
             addr_a, addr_b, eq, ne);
  else if (same ? (lt || gt) : ((lt != 0) != (addr_a < addr_b) || (gt != 0) != (addr_b < addr_a)))
    sim_fail("C08:handles-order-wrong", "handles to objects at %#llx and %#llx: a < b gives %d, b < a gives %d", addr_a, addr_b, lt, gt);
}
void c08c_far_done(int destroyed)
{
  sim_event(831, (uint64_t)(unsigned)destroyed, 0);
  far_done_seen = 1;
  if (destroyed < 0)
    return;  // the address space could not be reserved: nothing was compared
  int want = 1 + __builtin_popcount((unsigned)plan.far_apart & 63);
  if (destroyed != want)
    sim_fail("C08:chain:destroy-count", "%d far-apart objects were created and released, %d were destroyed", want, destroyed);
}
void c08c_long_begin(int n)
{
  SimOracleScope os;
  sim_event(820, (uint64_t)n, 0);
  delete long_seen;
  long_seen = new std::vector<unsigned char>((size_t)n, 0);
  long_destroyed = 0;
  long_done = false;
}
void c08c_long_destroyed(int id)
{
  if (id < 0 || id >= plan.long_n || long_done) {
    sim_fail(long_done ? "C08:chain:not-destroyed-at-last-release" : "C08:chain:destroy-count", "node %d of the long chain destroyed %s", id,
             long_done ? "after the release of the head had returned" : "(no such node)");
    return;
  }
  if ((*long_seen)[(size_t)id]++)
    sim_fail("C08:chain:destroyed-twice", "node %d destroyed a second time", id);
  long_destroyed++;
}
void c08c_long_released(void)
{
  sim_event(821, (uint64_t)long_destroyed, 0);
  long_done = true;
  if (long_destroyed != plan.long_n)
    sim_fail("C08:chain:not-destroyed-at-last-release", "the head of a chain of %d objects was released, %d of them were destroyed by that operation",
             plan.long_n, long_destroyed);
}
void c08c_zroot(int z)
{
  sim_event(816, (uint64_t)(unsigned)z, 0);
  m.zroot = z;
}
void c08c_drop_head_begin(void)
{
  sim_event(817, 0, 0);
  m.step = 0;
  m.kind = 7;
  m.in_step = true;
  m.head = -1;
}
void c08c_break_begin(int node, int to)
{
  sim_event(818, (uint64_t)node, (uint64_t)(unsigned)to);
  m.step = 1;
  m.kind = 6;
  m.in_step = true;
  m.link[node] = to;  // the member handle now refers to `to`; the objects that only the cycle kept alive go
}
void c08c_step_begin(int step, int kind)
{
  sim_event(813, (uint64_t)step, (uint64_t)kind);
  m.step = step;
  m.kind = kind;
  m.in_step = true;
  // the effect the operation must have on the handles
  if (kind == 0 || kind == 2) {  // copy / raw: head moves on, the member handle stays
    m.head = m.link[m.head];
    sim_probe(kind == 0 ? P_COPY_ADVANCE : P_RAW_ADVANCE);
  } else if (kind == 1) {        // move: the member handle is emptied
    int from = m.head;
    m.head = m.link[from];
    m.link[from] = -1;
    sim_probe(P_MOVE_ADVANCE);
  } else if (kind == 3 || kind == 4) {
    sim_probe(P_SELF_ASSIGN);    // nothing may change (an implementation may also empty a self-moved handle: see step_end)
  } else if (kind == 5) {
    m.keep = -1;
  }
}
void c08c_node_destroyed(int id)
{
  sim_event(814, (uint64_t)id, 0);
  m.destroyed[id]++;
  if (m.destroyed[id] > 1) {
    sim_fail("C08:chain:destroyed-twice", "node %d destroyed a second time", id);
    return;
  }
  if (!m.rooted) {
    sim_fail("C08:chain:destroyed-while-referenced", "node %d destroyed while the creator's reference exists", id);
    return;
  }
  if (m.in_step && m.kind == 4 && id == m.head && expected_count(id) == 1) {
    // moving a handle onto itself may leave it empty; it then references nothing and its object goes, which is consistent
    m.head = -1;
  }
  bool r[C08C_MAXN + 1];
  reach(r);
  if (r[id])
    sim_fail("C08:chain:destroyed-while-referenced", "node %d destroyed in step %d although a handle still reaches it", id, m.step);
  else if (m.in_step && (m.kind == 0 || m.kind == 1))
    sim_probe(P_LAST_REF_BY_ASSIGN);
}
void c08c_step_end(int step, int head_id)
{
  sim_event(815, (uint64_t)step, (uint64_t)(unsigned)head_id);
  m.in_step = false;
  if (m.kind == 4 && head_id == -1 && m.head >= 0) {
    // self-move left the handle empty: a permitted outcome of moving from the handle (it then references nothing);
    // settle() below demands that the reference it held was released
    m.head = -1;
  }
  if (head_id != m.head && m.kind != 5 && m.kind != 6 && m.kind != 7)
    sim_fail("C08:chain:handle-points-elsewhere", "after step %d the handle points at node %d, expected node %d", step, head_id, m.head);
  settle("after the assignment");
  if (step == 100 || m.head < 0)
    m.finished = m.head < 0 && step == 100 ? true : m.finished;
  if (step == 100)
    m.finished = true;
}
int c08c_alive(int id)
{
  bool r[C08C_MAXN + 1];
  reach(r);
  return r[id] && m.destroyed[id] == 0;
}
void c08c_count(int id, long long use_count)
{
  long long e = expected_count(id);
  if (use_count != e)
    sim_fail("C08:chain:use-count-mismatch", "node %d: useCount() = %lld, %lld handles point at it", id, use_count, e);
}
}
