#pragma once
// C08 — handles that live inside reference-counted objects (a singly linked chain). Shared between the halves.
enum { C08C_MAXN = 8 };
struct C08CPlan
{
  int n;                 // nodes 0..n-1, node i holds a handle to node i+1
  int keep;              // >= 0: a second handle outside the chain holds this node until the end
  int move[C08C_MAXN];   // advance step k: 0 head = head->next, 1 head = std::move(head->next), 2 head = head->next.ptr (raw)
  int self_at;           // >= 0: before this step, head = head (copy) and head = std::move(head) are executed
};
extern "C" {
const C08CPlan *c08c_plan();
void c08c_node_created(int id);
void c08c_node_destroyed(int id);
void c08c_linked(int from, int to);
void c08c_roots(int head, int keep);                 // initial handles are in place, creator references released
void c08c_step_begin(int step, int kind);
void c08c_step_end(int step, int head_id);
int c08c_alive(int id);                              // model: the node must still exist
void c08c_count(int id, long long use_count);
void c08c_run();
}
