#pragma once
// C08 — handles that live inside reference-counted objects (a singly linked chain). Shared between the halves.
enum { C08C_MAXN = 8 };
struct C08CPlan
{
  int n;                 // nodes 0..n-1, node i holds a handle to node i+1
  int keep;              // >= 0: a second handle outside the chain holds this node until the end
  int move[C08C_MAXN];   // advance step k: 0 head = head->next, 1 head = std::move(head->next), 2 head = head->next.ptr (raw)
  int self_at;           // >= 0: before this step, head = head (copy) and head = std::move(head) are executed
  int cycle;             // 1: the last node points back at node 0 and no outside handle is left; the cycle is then broken by assigning
                         //    to one member handle through a plain pointer: the assignment releases the object its own target lives in
  int break_at;          // node whose member handle is assigned to
  int far_apart;         // > 0: instead, handles to objects that lie 2^31, 2^32 or k*2^32 bytes apart are compared (the objects are placed in
                         //      reserved address space; their addresses are otherwise as good as any)
  int long_n;            // > 0: instead, a chain of this many nodes (thousands) is built and its head released: all of them go in that one release
  int break_kind;        // 0 = handle to node Z, 1 = temporary handle to Z (move), 2 = Z's plain pointer, 3 = nullptr, 4 = empty handle
};
extern "C" {
const C08CPlan *c08c_plan();
void c08c_node_created(int id);
void c08c_node_destroyed(int id);
void c08c_linked(int from, int to);
void c08c_roots(int head, int keep);                 // initial handles are in place, creator references released
void c08c_zroot(int z);                               // an outside handle on the extra node Z (-1: dropped)
void c08c_break_begin(int node, int to);              // node's member handle is assigned to (to = -1: emptied)
void c08c_drop_head_begin(void);
void c08c_step_begin(int step, int kind);
void c08c_step_end(int step, int head_id);
int c08c_alive(int id);                              // model: the node must still exist
void c08c_count(int id, long long use_count);
void c08c_far_result(int which, int a_is_b, int eq, int ne, int lt, int gt, unsigned long long addr_a, unsigned long long addr_b);
void c08c_far_done(int destroyed);
void c08c_long_begin(int n);
void c08c_long_destroyed(int id);
void c08c_long_released(void);                       // the release of the head has returned
void c08c_run();
}
