// C02 — schedule / async / AsyncTask. Instrumented half.
#include <memory>
#include <string>
#include <vector>

#include "../rt/sim_api.h"
#include "c02.h"
#include "rkcommon/tasking/AsyncTask.h"
#include "rkcommon/tasking/async.h"
#include "rkcommon/tasking/parallel_for.h"
#include "rkcommon/tasking/schedule.h"
#include "rkcommon/tasking/tasking_system_init.h"

using namespace rkcommon::tasking;

namespace {

struct Token  // counted by value: every copy of a closure owns one
{
  std::shared_ptr<std::vector<int>> heap;
  Token() : heap(std::make_shared<std::vector<int>>(3, 7)) { c02_token(+1); }
  Token(const Token &o) : heap(o.heap) { c02_token(+1); }
  Token(Token &&o) : heap(o.heap) { c02_token(+1); }
  ~Token() { c02_token(-1); }
};

// result type whose construction and assignment take several scheduling points and are observable
int g_tracked_ctor_work = 0;
struct Tracked
{
  long long a, b;
  Tracked()
  {
    sim_work((uint32_t)g_tracked_ctor_work);
    a = 0;
    b = 0;
    c02_tracked_ctor(this);
  }
  explicit Tracked(long long v)
  {
    a = v;
    b = v;
    c02_tracked_ctor(this);
  }
  Tracked(const Tracked &o)
  {
    a = o.a;
    b = o.b;
    c02_tracked_ctor(this);
  }
  Tracked &operator=(const Tracked &o)
  {
    c02_tracked_assign(this);
    a = o.a;
    sim_point();
    b = o.b;
    return *this;
  }
  ~Tracked() { c02_tracked_dtor(this); }
};

template <typename T>
struct Val;
template <>
struct Val<int>
{
  static int make(long long v) { return (int)v; }
  static long long read(const int &x, int *complete)
  {
    *complete = 1;
    return x;
  }
};
template <>
struct Val<std::string>
{
  static std::string make(long long v) { return "result-" + std::to_string(v) + "-padding-beyond-the-sso-buffer"; }
  static long long read(const std::string &s, int *complete)
  {
    long long v = -1;
    *complete = s.size() > 30 && sscanf(s.c_str(), "result-%lld-padding", &v) == 1;
    return v;
  }
};
template <>
struct Val<std::vector<int>>
{
  static std::vector<int> make(long long v) { return std::vector<int>(5, (int)v); }
  static long long read(const std::vector<int> &x, int *complete)
  {
    *complete = x.size() == 5;
    for (int e : x)
      if (e != x[0])
        *complete = 0;
    return x.empty() ? -1 : x[0];
  }
};
template <>
struct Val<Tracked>
{
  static Tracked make(long long v) { return Tracked(v); }
  static long long read(const Tracked &x, int *complete)
  {
    *complete = x.a == x.b;
    return x.a;
  }
};

inline bool is_nothing(const int &x) { return x == 0; }
inline bool is_nothing(const std::string &x) { return x.empty(); }
inline bool is_nothing(const std::vector<int> &x) { return x.empty(); }
inline bool is_nothing(const Tracked &x) { return x.a == 0 && x.b == 0; }
// what the function of item `it` returns, and how a result is read back
template <typename T>
T produce(const C02Item *it, long long val)
{
  return it->natural ? T() : Val<T>::make(val);
}
template <typename T>
long long read_back(const C02Item *it, long long val, const T &r, int *complete)
{
  if (it->natural) {
    *complete = is_nothing(r);
    return *complete ? val : -2;
  }
  return Val<T>::read(r, complete);
}

// the function of item `it` may itself hand over a function and wait for what it returns
inline void nested_handover(const C02Item *it, int id)
{
  if (!it || !it->nested)
    return;
  int cid = C02_MAXITEMS + 2150 + id;
  c02_created(cid);
  auto f = async([cid]() {
    c02_exec(cid);
    c02_exec_done(cid);
    return cid * 3;
  });
  if (f.get() != cid * 3)
    c02_exec_done(cid);  // (counts as a second completion: reported by the final check)
}

struct ItemBase
{
  virtual ~ItemBase() {}
  virtual bool step() = 0;  // run the next consumer action; false when the script is finished
  virtual void finish() = 0;
};

template <typename T>
struct AsyncItem : ItemBase
{
  int id;
  const C02Item *it;
  std::future<T> fut;
  int pos = 0;
  bool got = false;
  AsyncItem(int id_, const C02Item *it_) : id(id_), it(it_)
  {
    Token tok;
    int work = it->task_work;
    long long val = 1000 + id;
    {
      SimTag tag(SIM_TAG_SUT);
      const C02Item *itp = it;
      fut = async([tok, id_, work, val, itp]() {
        c02_exec(id_);
        sim_work((uint32_t)work);
        nested_handover(itp, id_);
        T r = produce<T>(itp, val);
        c02_exec_done(id_);
        return r;
      });
    }
    c02_created(id);
  }
  void get()
  {
    if (got)
      return;
    got = true;
    SimTag tag(SIM_TAG_SUT);
    c02_get_begin(id);
    T r = fut.get();
    int complete;
    long long v = read_back<T>(it, 1000 + id, r, &complete);
    c02_result(id, C02_ASYNC, it->type, v, complete, 0);
  }
  bool step() override
  {
    if (pos >= it->nact)
      return false;
    int a = it->act[pos++];
    if (a == C02_A_GET)
      get();
    else if (a == C02_A_WAIT) {
      if (!got) {
        SimTag tag(SIM_TAG_SUT);
        fut.wait();
      }
    } else if (a == C02_A_IDLE) {
      for (int k = 0; k < it->act_arg[pos - 1]; k++)
        sim_yield();
    } else if (a == C02_A_EXPECT_RUN) {
      c02_wait_item(id);
    }
    return true;
  }
  void finish() override { get(); }
};

template <typename T>
struct TaskItem : ItemBase
{
  int id;
  const C02Item *it;
  AsyncTask<T> *task;
  int pos = 0;
  bool finished_true = false;
  bool got = false;
  TaskItem(int id_, const C02Item *it_) : id(id_), it(it_)
  {
    Token tok;
    int work = it->task_work;
    long long val = 1000 + id;
    g_tracked_ctor_work = it->ctor_work;
    {
      SimTag tag(SIM_TAG_SUT);
      const C02Item *itp = it;
      task = new AsyncTask<T>([tok, id_, work, val, itp]() {
        c02_exec(id_);
        sim_work((uint32_t)work);
        nested_handover(itp, id_);
        T r = produce<T>(itp, val);
        c02_exec_done(id_);
        return r;
      });
    }
    g_tracked_ctor_work = 0;
    c02_created(id);
  }
  bool step() override
  {
    if (pos >= it->nact)
      return false;
    int a = it->act[pos++];
    SimTag tag(SIM_TAG_SUT);
    switch (a) {
    case C02_A_FINISHED: {
      bool f = task->finished();
      c02_finished_polled(id, f);
      if (f)
        finished_true = true;
      break;
    }
    case C02_A_VALID: {
      bool f = task->valid();
      c02_finished_polled(id, f);
      if (f)
        finished_true = true;
      break;
    }
    case C02_A_WAIT:
      task->wait();
      break;
    case C02_A_GET: {
      got = true;
      unsigned long long b0 = sim_blocked_count();
      c02_get_begin(id);
      T r = task->get();
      unsigned long long b1 = sim_blocked_count();
      c02_get_end(id, b0, b1);
      int complete;
      long long v = read_back<T>(it, 1000 + id, r, &complete);
      c02_result(id, C02_ASYNCTASK, it->type, v, complete, finished_true ? 1 : 0);
      break;
    }
    case C02_A_IDLE:
      for (int k = 0; k < it->act_arg[pos - 1]; k++)
        sim_yield();
      break;
    case C02_A_EXPECT_RUN:
      c02_wait_item(id);
      break;
    }
    return true;
  }
  void finish() override
  {
    if (!got && (id & 1)) {  // every other unread task is read before it is destroyed
      SimTag tag(SIM_TAG_SUT);
      got = true;
      unsigned long long b0 = sim_blocked_count();
      c02_get_begin(id);
      T r = task->get();
      c02_get_end(id, b0, sim_blocked_count());
      int complete;
      long long v = read_back<T>(it, 1000 + id, r, &complete);
      c02_result(id, C02_ASYNCTASK, it->type, v, complete, finished_true ? 1 : 0);
    }
    SimTag tag(SIM_TAG_SUT);
    c02_destroy_begin(id);
    delete task;
    c02_destroy_end(id);
  }
};

struct SchedItem : ItemBase
{
  SchedItem(int id, const C02Item *it)
  {
    Token tok;
    int work = it ? it->task_work : 0;
    {
      SimTag tag(SIM_TAG_SUT);
      schedule([tok, id, work, it]() {
        c02_exec(id);
        sim_work((uint32_t)work);
        nested_handover(it, id);
        c02_exec_done(id);
      });
    }
    c02_created(id);
  }
  bool step() override { return false; }
  void finish() override {}
};

ItemBase *make_item(int id, const C02Item *it)
{
  if (it->api == C02_SCHEDULE)
    return new SchedItem(id, it);
  if (it->api == C02_ASYNC) {
    switch (it->type) {
    case C02_T_INT: return new AsyncItem<int>(id, it);
    case C02_T_STRING: return new AsyncItem<std::string>(id, it);
    case C02_T_VECTOR: return new AsyncItem<std::vector<int>>(id, it);
    default: return new AsyncItem<Tracked>(id, it);
    }
  }
  switch (it->type) {
  case C02_T_INT: return new TaskItem<int>(id, it);
  case C02_T_STRING: return new TaskItem<std::string>(id, it);
  case C02_T_VECTOR: return new TaskItem<std::vector<int>>(id, it);
  default: return new TaskItem<Tracked>(id, it);
  }
}

}  // namespace

extern "C" void c02_run()
{
  const C02Plan *p = c02_plan();
  if (p->init_threads > 0) {
    SimTag t(SIM_TAG_INFRA);
    initTaskingSystem(p->init_threads);
  }
  if (p->lazy_teardown) {
    // first use creates the scheduler; attribute that allocation to the infrastructure like an explicit initialisation
    SimTag t(SIM_TAG_INFRA);
    rkcommon::tasking::parallel_for(1, [](int) {});
  }
  sim_phase(1);
  std::vector<ItemBase *> items;
  if (p->interleave) {
    for (int i = 0; i < p->nitems; i++)
      items.push_back(make_item(i, &p->items[i]));
    for (int i = 0; i < p->burst; i++)
      items.push_back(new SchedItem(C02_MAXITEMS + i, nullptr));
    if (p->reinit_threads > 0) {
      SimTag t(SIM_TAG_INFRA);
      initTaskingSystem(p->reinit_threads);
    }
    bool any = true;
    while (any) {
      any = false;
      for (auto *it : items)
        any |= it->step();
    }
    for (auto *it : items)
      it->finish();
  } else {
    for (int i = 0; i < p->nitems; i++) {
      ItemBase *it = make_item(i, &p->items[i]);
      while (it->step()) {
      }
      it->finish();
      items.push_back(it);
    }
    for (int i = 0; i < p->burst; i++)
      items.push_back(new SchedItem(C02_MAXITEMS + i, nullptr));
    if (p->reinit_threads > 0) {
      SimTag t(SIM_TAG_INFRA);
      initTaskingSystem(p->reinit_threads);
    }
  }
  sim_phase(2);
  c02_drain();
  for (int k = 0; k < p->sporadic; k++) {
    // the caller idles (workers run out of work and go to sleep), then hands over one more task
    for (int y = 0; y < p->sporadic_idle[k]; y++)
      sim_yield();
    int id = C02_MAXITEMS + 2000 + k;
    if (p->sporadic_pair[k]) {
      int idb = C02_MAXITEMS + 2100 + k;
      {
        SimTag tag(SIM_TAG_SUT);
        schedule([id, idb]() {
          c02_exec(id);
          c02_wait_for(idb);  // long-lived: keeps its tasking thread until the function handed over next has run
          c02_exec_done(id);
        });
        schedule([idb]() {
          c02_exec(idb);
          c02_exec_done(idb);
        });
      }
      c02_created(id);
      c02_created(idb);
      c02_wait_one(idb);
      c02_wait_one(id);
      continue;
    }
    items.push_back(new SchedItem(id, nullptr));
    c02_wait_one(id);
  }
  sim_phase(3);
  for (auto *it : items)
    delete it;
  if (p->init_threads > 0 || p->lazy_teardown) {
    SimTag t(SIM_TAG_INFRA);
    initTaskingSystem(1);
  }
  sim_phase(4);
}
