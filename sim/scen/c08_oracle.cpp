// C08 — reference counting. Oracle half: reference model of handles and counts.
#include <stdio.h>
#include <string.h>

#include "../rt/sim_api.h"
#include "c08.h"

namespace {
C08Plan plan;
struct Slot
{
  int obj;        // -2 dead, -1 null, >=0 object
  int releasing;  // object whose reference this slot is giving up right now (-1: none)
};
struct M
{
  Slot slots[1 + C08_MAXTHREADS][C08_SLOTS];
  int dslot[1 + C08_MAXTHREADS][2];
  int dreleasing[1 + C08_MAXTHREADS][2];
  bool creator[C08_MAXOBJ];
  int destroyed[C08_MAXOBJ];
  bool created[C08_MAXOBJ];
  long long extra_refs[C08_MAXOBJ];  // explicit refInc without matching refDec yet (incl. the fast-forwarded ones)
  int creator_releasing[C08_MAXOBJ];
  int op_tid_releases[1 + C08_MAXTHREADS];  // object the thread's current op may release (-1 none)
  int expect_dst[1 + C08_MAXTHREADS];
  int expect_src_after[1 + C08_MAXTHREADS];
  int cmp_same[1 + C08_MAXTHREADS];
  int phase;
} m;

enum { P_DESTROY_BY_THREAD = 0, P_DESTROY_BY_T0, P_SELF_ASSIGN, P_ASSIGN_NULL, P_MOVE_FROM_EMPTY, P_CONV, P_CONCURRENT_COPY_SHARED, P_CREATOR_RELEASED_DURING, P_LAST_REF_DROPPED_BY_ASSIGN, P_FAST_FORWARD };
const char *probe_names[] = {"object_destroyed_by_worker_thread", "object_destroyed_by_thread0", "self_assignment", "assign_null_or_empty",
                             "move_from_empty_handle", "derived_to_base_conversion", "copy_from_shared_handle_in_thread",
                             "creator_released_while_threads_run", "last_reference_dropped_by_assignment", "count_fast_forwarded_by_2^32-4", nullptr};
const char *no_faults[] = {nullptr};

int barriers_arrived;
void reset()
{
  barriers_arrived = 0;
  memset(&plan, 0, sizeof plan);
  memset(&m, 0, sizeof m);
  for (int t = 0; t <= C08_MAXTHREADS; t++) {
    for (int s = 0; s < C08_SLOTS; s++) {
      m.slots[t][s].obj = -2;
      m.slots[t][s].releasing = -1;
    }
    m.dslot[t][0] = m.dslot[t][1] = -1;
    m.dreleasing[t][0] = m.dreleasing[t][1] = -1;
    m.op_tid_releases[t] = -1;
  }
  for (int i = 0; i < C08_MAXOBJ; i++)
    m.creator_releasing[i] = 0;
}

C08Op gen_op(bool thread0, int nobj)
{
  C08Op op;
  static const uint8_t kinds[] = {C08_COPY_CTOR, C08_COPY_CTOR, C08_MOVE_CTOR, C08_CONV_CTOR, C08_RAW_CTOR, C08_COPY_ASSIGN, C08_COPY_ASSIGN,
                                  C08_MOVE_ASSIGN, C08_RAW_ASSIGN, C08_DESTROY, C08_DESTROY, C08_INCDEC, C08_COMPARE, C08_PAYLOAD, C08_DSLOT_SET, C08_COMPARE_MIXED};
  op.kind = kinds[sim_plan(sizeof kinds)];
  op.dst = (uint8_t)sim_plan(C08_SLOTS);
  unsigned sk = sim_plan(thread0 ? 4 : 6);
  op.src_kind = thread0 ? (sk == 3 ? 2 : 0) : (sk < 2 ? 0 : (sk < 5 ? 1 : 2));
  op.src = (uint8_t)sim_plan(C08_SLOTS);
  op.arg = (uint8_t)sim_plan((uint32_t)nobj);
  return op;
}

void do_plan(int tier)
{
  plan.nobj = 1 + (int)sim_plan(C08_MAXOBJ);
  sim_set_tso(sim_plan(4) == 0);
  unsigned k = sim_plan(tier ? 7 : 5);
  plan.nthreads = k == 0 ? 0 : (int)k + (k >= 1 ? 1 : 0);  // 0 or 2..
  if (plan.nthreads > C08_MAXTHREADS)
    plan.nthreads = C08_MAXTHREADS;
  plan.nseq1 = (int)sim_plan(C08_MAXOPS + 1);
  for (int i = 0; i < plan.nseq1; i++)
    plan.seq1[i] = gen_op(true, plan.nobj);
  for (int t = 0; t < plan.nthreads; t++) {
    plan.nops[t] = 1 + (int)sim_plan(plan.nthreads > 3 ? 8 : C08_MAXOPS);
    for (int i = 0; i < plan.nops[t]; i++)
      plan.ops[t][i] = gen_op(false, plan.nobj);
  }
  plan.nseq2 = (int)sim_plan(8);
  for (int i = 0; i < plan.nseq2; i++)
    plan.seq2[i] = gen_op(true, plan.nobj);
  for (int i = 0; i < plan.nobj; i++)
    plan.release_creator_during[i] = plan.nthreads ? (int)sim_plan(2) : 0;
  for (int t = 0; t < plan.nthreads; t++)
    plan.barrier_at[t] = (int)sim_plan((uint32_t)plan.nops[t] + 1);
  plan.t0_drops_during = plan.nthreads ? (int)sim_plan(2) : 0;
  plan.fast_forward = sim_plan(8) == 0;
  if (plan.fast_forward) {
    plan.release_creator_during[0] = 0;  // the explicit references are given back by thread 0 at the end
    sim_probe(P_FAST_FORWARD);
  }
}

long long model_count(int obj)
{
  long long c = m.creator[obj] ? 1 : 0;
  c += m.extra_refs[obj];
  for (int t = 0; t <= C08_MAXTHREADS; t++) {
    for (int s = 0; s < C08_SLOTS; s++)
      if (m.slots[t][s].obj == obj)
        c++;
    for (int k = 0; k < 2; k++)
      if (m.dslot[t][k] == obj)
        c++;
  }
  return c;
}

void check()
{
  for (int i = 0; i < plan.nobj; i++) {
    if (m.created[i] && m.destroyed[i] == 0)
      sim_fail("C08:object-never-destroyed", "object %d: every reference was released but it was not destroyed (leak)", i);
  }
}

int stuck(int deadlock, char *cls, size_t n)
{
  if (deadlock) {
    snprintf(cls, n, "C08:deadlock");
    return 1;
  }
  return 0;
}

void describe(char *buf, size_t n)
{
  static const char *kn[] = {"copy-ctor", "move-ctor", "conv-ctor", "raw-ctor", "copy-assign", "move-assign", "raw-assign", "destroy",
                             "incdec", "compare", "payload", "dslot-set", "release-creator"};
  int k = snprintf(buf, n, "{\"objects\": %d, \"threads\": %d, \"thread0_before\": [", plan.nobj, plan.nthreads);
  for (int i = 0; i < plan.nseq1 && k < (int)n - 200; i++)
    k += snprintf(buf + k, n - k, "%s\"%s s%d<-%c%d\"", i ? "," : "", kn[plan.seq1[i].kind], plan.seq1[i].dst % C08_SLOTS,
                  "osn"[plan.seq1[i].src_kind], plan.seq1[i].src % C08_SLOTS);
  k += snprintf(buf + k, n - k, "], \"thread_ops\": [");
  for (int t = 0; t < plan.nthreads && k < (int)n - 200; t++) {
    k += snprintf(buf + k, n - k, "%s[", t ? "," : "");
    for (int i = 0; i < plan.nops[t] && k < (int)n - 200; i++)
      k += snprintf(buf + k, n - k, "%s\"%s s%d<-%c%d\"", i ? "," : "", kn[plan.ops[t][i].kind], plan.ops[t][i].dst % C08_SLOTS,
                    "osn"[plan.ops[t][i].src_kind], plan.ops[t][i].src % C08_SLOTS);
    k += snprintf(buf + k, n - k, "]");
  }
  k += snprintf(buf + k, n - k, "], \"thread0_after\": %d, \"creator_released_during\": [%d,%d,%d], \"thread0_drops_its_handles_during\": %d}", plan.nseq2,
                plan.release_creator_during[0], plan.release_creator_during[1], plan.release_creator_during[2], plan.t0_drops_during);
}

const SimScenario scen = {"c08", "C08", LANE_DEBUG, reset, do_plan, c08_run, check, stuck, describe, no_faults, probe_names, 0};
SimRegistrar reg(&scen);
}  // namespace

extern "C" {
const C08Plan *c08_plan() { return &plan; }
void c08_phase(int ph)
{
  m.phase = ph;
  sim_phase(ph);
}
int c08_model_slot(int tid, int slot) { return m.slots[tid][slot].obj; }
int c08_obj_alive(int obj) { return m.created[obj] && !m.destroyed[obj]; }
int c08_payload_owner(int obj) { return (m.phase == 2 && plan.nthreads) ? 1 + obj % plan.nthreads : 0; }
void c08_fast_forward(int obj, long long delta)
{
  sim_event(891, (uint64_t)obj, (uint64_t)delta);
  m.extra_refs[obj] += delta;
}
void c08_barrier_arrive(int tid)
{
  sim_event(890, (uint64_t)tid, 0);
  barriers_arrived++;
}
void c08_wait_barriers(int n)
{
  unsigned long long bound = sim_steps() + 200000;
  while (barriers_arrived < n && sim_steps() < bound)
    sim_yield();
}

void c08_obj_created(int obj)
{
  m.created[obj] = true;
  m.creator[obj] = true;
  sim_event(800, (uint64_t)obj, 0);
}

void c08_obj_destroyed(int obj, int payload_ok)
{
  int tid = sim_self();
  sim_event(801, (uint64_t)obj, 0);
  m.destroyed[obj]++;
  if (m.destroyed[obj] > 1)
    sim_fail("C08:destroyed-twice", "object %d destroyed %d times", obj, m.destroyed[obj]);
  if (!payload_ok)
    sim_fail("C08:payload-corrupt", "object %d payload corrupt at destruction", obj);
  // never while any reference remains
  if (m.creator[obj] && !m.creator_releasing[obj])
    sim_fail("C08:destroyed-while-referenced", "object %d destroyed while the creator's reference is still held", obj);
  if (m.extra_refs[obj] > 0)
    sim_fail("C08:destroyed-while-referenced", "object %d destroyed while an explicit refInc() reference is outstanding", obj);
  for (int t = 0; t <= C08_MAXTHREADS; t++) {
    for (int s = 0; s < C08_SLOTS; s++)
      if (m.slots[t][s].obj == obj && m.slots[t][s].releasing != obj)
        sim_fail("C08:destroyed-while-referenced", "object %d destroyed while handle %d of thread %d still points at it", obj, s, t);
    for (int k = 0; k < 2; k++)
      if (m.dslot[t][k] == obj && m.dreleasing[t][k] != obj)
        sim_fail("C08:destroyed-while-referenced", "object %d destroyed while a Derived handle of thread %d still points at it", obj, t);
  }
  // by the operation that releases the last reference
  int mt = -1;
  for (int t = 0; t <= C08_MAXTHREADS; t++)
    if (m.op_tid_releases[t] == obj)
      mt = t;
  if (mt < 0)
    sim_fail("C08:destroyed-by-non-releasing-operation", "object %d destroyed although no running operation releases a reference to it", obj);
  sim_probe(tid == 0 ? P_DESTROY_BY_T0 : P_DESTROY_BY_THREAD);
}

void c08_pre(int tid, const C08Op *op, int src_obj)
{
  int d = op->dst % C08_SLOTS;
  Slot &ds = m.slots[tid][d];
  m.op_tid_releases[tid] = -1;
  m.expect_src_after[tid] = -3;
  m.cmp_same[tid] = -1;
  sim_event(810 + op->kind, (uint64_t)tid << 8 | (uint64_t)d, (uint64_t)(uint32_t)src_obj);
  switch (op->kind) {
  case C08_COPY_CTOR:
  case C08_RAW_CTOR:
  case C08_CONV_CTOR:
    m.expect_dst[tid] = src_obj;
    if (op->kind == C08_CONV_CTOR)
      sim_probe(P_CONV);
    if (op->src_kind == 1 && tid != 0)
      sim_probe(P_CONCURRENT_COPY_SHARED);
    break;
  case C08_MOVE_CTOR:
    m.expect_dst[tid] = src_obj;
    m.expect_src_after[tid] = -1;
    if (src_obj < 0)
      sim_probe(P_MOVE_FROM_EMPTY);
    break;
  case C08_COPY_ASSIGN:
  case C08_RAW_ASSIGN:
    m.expect_dst[tid] = src_obj;
    if (ds.obj >= 0) {
      ds.releasing = ds.obj;
      m.op_tid_releases[tid] = ds.obj;
    }
    if (op->src_kind == 0 && op->src % C08_SLOTS == d)
      sim_probe(P_SELF_ASSIGN);
    if (src_obj < 0)
      sim_probe(P_ASSIGN_NULL);
    // self-assignment / same object: the reference is not really given up
    if (src_obj == ds.obj)
      ds.releasing = -1;
    break;
  case C08_MOVE_ASSIGN:
    m.expect_dst[tid] = src_obj;
    m.expect_src_after[tid] = -1;
    if (ds.obj >= 0) {
      ds.releasing = ds.obj;
      m.op_tid_releases[tid] = ds.obj;
    }
    if (src_obj < 0)
      sim_probe(P_MOVE_FROM_EMPTY);
    break;
  case C08_DESTROY:
    m.expect_dst[tid] = -2;
    if (ds.obj >= 0) {
      ds.releasing = ds.obj;
      m.op_tid_releases[tid] = ds.obj;
    }
    break;
  case C08_INCDEC:
  case C08_PAYLOAD:
    m.expect_dst[tid] = ds.obj;
    break;
  case C08_COMPARE:
  case C08_COMPARE_MIXED:
    m.expect_dst[tid] = ds.obj;
    m.cmp_same[tid] = ds.obj == src_obj ? 1 : 0;
    break;
  case C08_DSLOT_SET: {
    int k = op->dst & 1;
    m.expect_dst[tid] = src_obj;
    if (m.dslot[tid][k] >= 0 && m.dslot[tid][k] != src_obj) {
      m.dreleasing[tid][k] = m.dslot[tid][k];
      m.op_tid_releases[tid] = m.dslot[tid][k];
    }
    break;
  }
  }
}

void c08_post(int tid, const C08Op *op, int dst_after, int src_after, int eq, int ne, int lt, int gt)
{
  int d = op->dst % C08_SLOTS;
  sim_event(840 + op->kind, (uint64_t)tid << 8 | (uint64_t)d, (uint64_t)(uint32_t)dst_after);
  if (dst_after != m.expect_dst[tid])
    sim_fail("C08:wrong-pointee-after-operation", "thread %d op %d on slot %d: handle points at object %d, expected %d", tid, op->kind, d,
             dst_after, m.expect_dst[tid]);
  if (m.expect_src_after[tid] != -3 && src_after != m.expect_src_after[tid])
    sim_fail("C08:moved-from-handle-not-empty", "thread %d op %d: source handle points at object %d after a move", tid, op->kind, src_after);
  if (op->kind == C08_COMPARE || op->kind == C08_COMPARE_MIXED) {
    int same = m.cmp_same[tid];
    if (eq != same || ne != !same)
      sim_fail("C08:comparison-not-pointer-equality", "handles %spointing at %s objects: operator== gave %d, operator!= gave %d",
               op->kind == C08_COMPARE_MIXED ? "(one to the base type, one to the derived type) " : "", same ? "the same" : "different", eq, ne);
    if (op->kind == C08_COMPARE && same && (lt || gt))
      sim_fail("C08:comparison-not-pointer-equality", "operator< true for handles to the same object");
    if (op->kind == C08_COMPARE && !same && lt == gt)
      sim_fail("C08:comparison-not-pointer-equality", "operator< is not a strict order on handles to different objects (a<b=%d b<a=%d)", lt, gt);
  }
  if (op->kind == C08_DSLOT_SET) {
    int k = op->dst & 1;
    m.dslot[tid][k] = dst_after;
    m.dreleasing[tid][k] = -1;
  } else {
    Slot &ds = m.slots[tid][d];
    int old = ds.obj;
    ds.obj = dst_after;
    ds.releasing = -1;
    if (op->kind == C08_MOVE_CTOR || op->kind == C08_MOVE_ASSIGN)
      m.slots[tid][op->src % C08_SLOTS].obj = -1;
    if (old >= 0 && old != dst_after && m.destroyed[old] && (op->kind == C08_COPY_ASSIGN || op->kind == C08_RAW_ASSIGN || op->kind == C08_MOVE_ASSIGN))
      sim_probe(P_LAST_REF_DROPPED_BY_ASSIGN);
  }
  m.op_tid_releases[tid] = -1;
}

void c08_creator_release_pre(int obj)
{
  sim_event(870, (uint64_t)obj, 0);
  m.creator_releasing[obj] = 1;
  m.op_tid_releases[0] = obj;
  if (m.phase == 2)
    sim_probe(P_CREATOR_RELEASED_DURING);
}
void c08_creator_release_post(int obj)
{
  sim_event(871, (uint64_t)obj, 0);
  m.creator[obj] = false;
  m.creator_releasing[obj] = 0;
  m.op_tid_releases[0] = -1;
}

void c08_count(int obj, long long observed)
{
  long long exp = model_count(obj);
  sim_event(880, (uint64_t)obj, (uint64_t)observed);
  if (observed != exp)
    sim_fail("C08:use-count-mismatch", "object %d: useCount()=%lld, creator reference + live handles + explicit references = %lld", obj, observed, exp);
}
}
