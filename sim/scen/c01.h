#pragma once
#include <stdint.h>
// C01 — parallel loops. Shared between the halves.
enum { C01_FOR = 0, C01_FOREACH_CONT = 1, C01_FOREACH_IT = 2, C01_BLOCKS = 3, C01_FOREACH_DEQUE = 4, C01_BLOCKS_WIDE = 5 };  // DEQUE: a random-access range that is not contiguous; BLOCKS_WIDE: parallel_in_blocks_of with block sizes 2^30 / INT_MAX and counts close to the index type's range (the body takes a block as one unit)
enum { C01_MAXCALLS = 3 };
struct C01Call
{
  int api;
  int itype;           // 0 unsigned char, 1 short, 2 int, 3 unsigned, 4 long, 5 long long, 6 unsigned long long, 7 size_t
  long long count;
  int block;           // 1, 3, 16, 64, 300; BLOCKS_WIDE: 1<<30 or INT_MAX
  int cost_mod, cost;  // body cost = cost scheduling points for indices with (i % cost_mod == 0), else 0
  int nested_at;       // index whose body launches the inner loop (-1: none)
  long long inner_count;
  int inner_api, inner_itype, inner_block;
  int from_task;       // 1: the call is made from inside an outer parallel loop body of size from_task_n
  int from_task_n;
  int prefill_block;   // 1: first occupy every worker thread with a long-running scheduled closure
  int throw_at;        // >= 0: the body throws at this index; the application catches the exception (tbb / serial lanes)
  int functor;         // parallel_for only: 0 lambda capturing references, 1 temporary lambda owning heap state, 2 temporary std::function, 3 named function object
  int prefill;         // fire-and-forget closures scheduled right before the call (fills the caller's task pipe)
};
struct C01Plan
{
  int init_threads;
  int lazy_teardown;   // internal back end used without initialisation: the scheduler it created on first use is replaced at the end
  int ncalls;
  int concurrent;      // 1: the calls are made at the same time, each from an application thread of its own (tbb / omp / serial lanes)
  C01Call calls[C01_MAXCALLS];
};
extern "C" {
const C01Plan *c01_plan();
// returns a call handle
int c01_call_begin(int api, int itype, long long count, int block, int nested);
void c01_call_end(int h);
void c01_call_aborted(int h);               // the call ended with the exception a body threw
// body events; return 1 if the harness may touch slot idx (index valid and first visit)
int c01_body(int h, long long idx);
int c01_block(int h, long long begin, long long end);
void c01_wide_block(int h, unsigned long long begin, unsigned long long end, int is_signed);
void c01_body_exit(int h);
void c01_slot_check(int h, long long idx, int value);
void c01_prefill_ran(void);
void c01_state_lost(int h, long long idx, int where);   // the function object the body runs on has lost the state it was created with
void c01_blocker(void);
void c01_wait_blockers(int n);
void c01_release_blockers(void);
void c01_run();
int c01_small_index_blocks();   // instrumented half: parallel_in_blocks_of instantiates for unsigned char / short
}
