#pragma once
#include <stddef.h>
// C16 — XML reader under a simulated file layer. Shared between the halves.
enum { A16_FAULT_NONE = 0, A16_FAULT_SHORT_READ, A16_FAULT_FLIP, A16_FAULT_DROP, A16_FAULT_DUP, A16_FAULT_NUL, A16_FAULT_OPEN, A16_RAW, A16_FAULT_TRUNC };
extern "C" {
const unsigned char *a16_bytes(size_t *n);   // the bytes of the file as stored on the simulated device
int a16_fault(long *arg);
int a16_pre_reads(void);                     // truncated copies of the document read first, in the same process
long a16_pre_cut(int i);
int a16_soak(void);                          // 1: re-read the complete document after every pre-read beyond the first 24
void a16_mid_outcome(int kind, const char *canon_or_what);   // outcome of such a re-read
void a16_pre_outcome(int kind);                    // device fault of this run
void a16_outcome(int kind, const char *canon_or_what);  // 0 document, 1 runtime_error, 2 other std::exception, 3 unknown exception
void a16_run();
}
