// C15 — stream serialization. ASan/UBSan-instrumented half: writers, byte channel with cut,
// reader, fixed-capacity device model.
#include <cstring>
#include <memory>
#include <string>
#include <vector>

#include "../rt/sim_api.h"
#include "a15.h"
#include "rkcommon/networking/DataStreaming.h"

using namespace rkcommon::networking;
using namespace rkcommon::utility;

namespace {

struct Pod
{
  int a;
  char c;
  double d;
  bool operator==(const Pod &o) const { return a == o.a && c == o.c && d == o.d; }
};

uint64_t mix(uint64_t z)
{
  z += 0x9e3779b97f4a7c15ULL;
  z = (z ^ (z >> 30)) * 0xbf58476d1ce4e5b9ULL;
  z = (z ^ (z >> 27)) * 0x94d049bb133111ebULL;
  return z ^ (z >> 31);
}
std::string mkstring(uint64_t seed, int len)
{
  std::string s;
  bool binary = (seed >> 7) & 1;  // every other string holds arbitrary bytes, NUL included
  if (len > 4096) {
    // long strings: eight bytes per draw
    s.resize((size_t)len);
    for (int i = 0; i < len; i += 8) {
      uint64_t r = mix(seed + (uint64_t)i);
      for (int k = 0; k < 8 && i + k < len; k++, r >>= 8)
        s[(size_t)(i + k)] = binary ? (char)r : (char)('a' + (r & 0xff) % 26);
    }
    return s;
  }
  for (int i = 0; i < len; i++) {
    uint64_t r = mix(seed + (uint64_t)i);
    s += binary ? (char)(r % 7 == 0 ? 0 : r >> 8) : (char)('a' + r % 26);
  }
  return s;
}
std::vector<int> mkvec(uint64_t seed, int len)
{
  std::vector<int> v;
  v.reserve((size_t)len);
  for (int i = 0; i < len; i++)
    v.push_back((int)mix(seed * 31 + (uint64_t)i));
  return v;
}

// element types without a stream operator of their own: they travel as their raw bytes
struct Rgb
{
  uint8_t r = 0, g = 0, b = 0;  // member initialisers: not trivial, 3 bytes
  bool operator==(const Rgb &o) const { return r == o.r && g == o.g && b == o.b; }
};
struct Tag
{
  uint8_t v;
  Tag() : v(0) {}  // user-provided constructor: not trivial, 1 byte
  explicit Tag(uint8_t x) : v(x) {}
  bool operator==(const Tag &o) const { return v == o.v; }
};
template <typename E, typename F>
std::vector<E> mkvec_of(const std::vector<int> &src, F f)
{
  std::vector<E> v;
  v.reserve(src.size());
  for (int x : src)
    v.push_back(f(x));
  return v;
}
template <typename E>
bool read_vec_eq(ReadStream &r, const std::vector<E> &expect, bool prefilled)
{
  std::vector<E> x;
  if (prefilled)
    x.resize(3);
  r >> x;
  return x == expect;
}

// one generated value, held in its typed form
struct Held
{
  int type;
  uint8_t u8;
  int16_t i16;
  int32_t i32;
  uint64_t u64;
  float f32;
  double f64;
  Pod pod;
  std::string str;
  std::vector<int> vi;
  std::vector<std::string> vs;
  std::vector<std::vector<int>> vvi;
  std::vector<uint8_t> vu8;
  std::vector<int16_t> vi16;
  std::vector<Rgb> vrgb;
  std::vector<std::pair<uint16_t, uint16_t>> vpair;
  std::vector<Tag> vtag;
  std::vector<double> vf64;
  std::vector<Pod> vpod;
};

Held make(const A15Value &v)
{
  Held h;
  h.type = v.type;
  uint64_t s = mix(v.scalar);
  h.u8 = (uint8_t)s;
  h.i16 = (int16_t)s;
  h.i32 = (int32_t)s;
  h.u64 = s;
  h.f32 = (float)(int32_t)s / 7.0f;
  h.f64 = (double)(int64_t)s / 3.0;
  std::memset(&h.pod, 0, sizeof h.pod);
  h.pod.a = (int)s;
  h.pod.c = (char)(s >> 8);
  h.pod.d = (double)(s >> 16);
  h.str = mkstring(s, v.len);
  h.vi = mkvec(s, v.len);
  if (v.type >= A15_VEC_U8) {
    h.vu8 = mkvec_of<uint8_t>(h.vi, [](int x) { return (uint8_t)x; });
    h.vi16 = mkvec_of<int16_t>(h.vi, [](int x) { return (int16_t)x; });
    h.vrgb = mkvec_of<Rgb>(h.vi, [](int x) { Rgb c; c.r = (uint8_t)x; c.g = (uint8_t)(x >> 8); c.b = (uint8_t)(x >> 16); return c; });
    h.vpair = mkvec_of<std::pair<uint16_t, uint16_t>>(h.vi, [](int x) { return std::make_pair((uint16_t)x, (uint16_t)(x >> 16)); });
    h.vtag = mkvec_of<Tag>(h.vi, [](int x) { return Tag((uint8_t)x); });
    h.vf64 = mkvec_of<double>(h.vi, [](int x) { return (double)x / 4.0; });
    h.vpod = mkvec_of<Pod>(h.vi, [](int x) { Pod p; std::memset(&p, 0, sizeof p); p.a = x; p.c = (char)x; p.d = (double)x; return p; });
  }
  for (int i = 0; i < v.len && i < 4; i++) {
    h.vs.push_back(mkstring(s + (uint64_t)i, v.sub[i]));
    h.vvi.push_back(mkvec(s + (uint64_t)i, v.sub[i]));
  }
  return h;
}

void write_value(WriteStream &w, Held &h)
{
  switch (h.type) {
  case A15_U8: w << h.u8; break;
  case A15_I16: w << h.i16; break;
  case A15_I32: w << h.i32; break;
  case A15_U64: w << h.u64; break;
  case A15_F32: w << h.f32; break;
  case A15_F64: w << h.f64; break;
  case A15_POD: w << h.pod; break;
  case A15_STRING: w << h.str; break;
  case A15_CSTRING: w << h.str.c_str(); break;  // (a C string ends at its first NUL: see read side)
  case A15_VEC_INT: w << h.vi; break;
  case A15_VEC_STRING: w << h.vs; break;
  case A15_VEC_VEC_INT: w << h.vvi; break;
  case A15_VEC_U8: w << h.vu8; break;
  case A15_VEC_I16: w << h.vi16; break;
  case A15_VEC_RGB: w << h.vrgb; break;
  case A15_VEC_PAIR16: w << h.vpair; break;
  case A15_VEC_TAG: w << h.vtag; break;
  case A15_VEC_F64: w << h.vf64; break;
  case A15_VEC_POD: w << h.vpod; break;
  case A15_VEC_CSTRING: {
    std::vector<const char *> v;
    for (auto &s : h.vs)
      v.push_back(s.c_str());
    w << v;
    break;
  }
  case A15_VEC_VEC_CSTRING: {
    // two inner vectors: the first element alone, then the rest
    std::vector<std::vector<const char *>> vv(2);
    for (size_t i = 0; i < h.vs.size(); i++)
      vv[i ? 1 : 0].push_back(h.vs[i].c_str());
    w << vv;
    break;
  }
  // the array wrappers are written through a reference to their common base, or - every other value - as what they are
  case A15_ARRAYVIEW: {
    ArrayView<int> av(h.vi);
    const AbstractArray<int> &aa = av;
    if (h.u64 & 2)
      w << av;
    else
      w << aa;
    break;
  }
  case A15_OWNEDARRAY: {
    OwnedArray<int> oa(h.vi);
    const AbstractArray<int> &aa = oa;
    if (h.u64 & 2)
      w << oa;
    else
      w << aa;
    break;
  }
  case A15_FIXEDARRAY: {
    FixedArray<int> fa(h.vi.data(), h.vi.size());
    const AbstractArray<int> &aa = fa;
    if (h.u64 & 2)
      w << fa;
    else
      w << aa;
    break;
  }
  case A15_FIXEDARRAYVIEW:
  default: {
    auto fa = std::make_shared<FixedArray<int>>(h.vi.data(), h.vi.size());
    FixedArrayView<int> fv(fa, 0, h.vi.size());
    const AbstractArray<int> &aa = fv;
    if (h.u64 & 2)
      w << fv;
    else
      w << aa;
    break;
  }
  }
}

// reads one value of the type of h and compares; returns false on mismatch
bool read_and_compare(ReadStream &r, const Held &h)
{
  switch (h.type) {
  case A15_U8: { uint8_t x; r >> x; return x == h.u8; }
  case A15_I16: { int16_t x; r >> x; return x == h.i16; }
  case A15_I32: { int32_t x; r >> x; return x == h.i32; }
  case A15_U64: { uint64_t x; r >> x; return x == h.u64; }
  case A15_F32: { float x; r >> x; return std::memcmp(&x, &h.f32, 4) == 0; }
  case A15_F64: { double x; r >> x; return std::memcmp(&x, &h.f64, 8) == 0; }
  case A15_POD: { Pod x; r >> x; return x == h.pod; }
  // (every other destination already holds a value: reading replaces it)
  case A15_STRING: { std::string x; if (h.u64 & 1) x = "previous content of the destination"; r >> x; return x == h.str; }
  case A15_CSTRING: { std::string x; if (h.u64 & 1) x = "old"; r >> x; return x == std::string(h.str.c_str()); }
  case A15_VEC_STRING: { std::vector<std::string> x; if (h.u64 & 1) x.assign(3, "old"); r >> x; return x == h.vs; }
  case A15_VEC_VEC_INT: { std::vector<std::vector<int>> x; if (h.u64 & 1) x.assign(2, std::vector<int>(2, 7)); r >> x; return x == h.vvi; }
  case A15_VEC_U8: return read_vec_eq(r, h.vu8, h.u64 & 1);
  case A15_VEC_I16: return read_vec_eq(r, h.vi16, h.u64 & 1);
  case A15_VEC_RGB: return read_vec_eq(r, h.vrgb, h.u64 & 1);
  case A15_VEC_PAIR16: return read_vec_eq(r, h.vpair, h.u64 & 1);
  case A15_VEC_TAG: return read_vec_eq(r, h.vtag, h.u64 & 1);
  case A15_VEC_F64: return read_vec_eq(r, h.vf64, h.u64 & 1);
  case A15_VEC_POD: return read_vec_eq(r, h.vpod, h.u64 & 1);
  case A15_VEC_CSTRING: {
    std::vector<std::string> x, e;
    if (h.u64 & 1)
      x.assign(3, "old");
    r >> x;
    for (auto &s : h.vs)
      e.push_back(std::string(s.c_str()));  // a C string ends at its first NUL
    return x == e;
  }
  case A15_VEC_VEC_CSTRING: {
    std::vector<std::vector<std::string>> x, e(2);
    if (h.u64 & 1)
      x.assign(1, std::vector<std::string>(2, "old"));
    r >> x;
    for (size_t i = 0; i < h.vs.size(); i++)
      e[i ? 1 : 0].push_back(std::string(h.vs[i].c_str()));
    return x == e;
  }
  default: { std::vector<int> x; if (h.u64 & 1) x.assign(5, -1); r >> x; return x == h.vi; }  // vectors and all array wrappers share the framing
  }
}

void round_trip(const A15Plan *p)
{
  std::vector<Held> vals;
  for (int i = 0; i < p->nvals; i++)
    vals.push_back(make(p->vals[i]));
  BufferWriter bw;
  WriteSizeCalculator calc;
  std::vector<size_t> ends;  // stream offset after each value
  int vi = 0;
  for (auto &h : vals) {
    write_value(bw, h);
    write_value(calc, h);
    if (p->flush_mask >> (vi++ & 14) & 1) {
      bw.flush();
      calc.flush();
    }
    ends.push_back(bw.buffer->size());
    if (calc.writtenSize != bw.buffer->size()) {
      a15_fail("C15:size-calculator-differs", "WriteSizeCalculator and BufferWriter disagree on the byte count");
      return;
    }
  }
  if (p->flush_mask >> 15 & 1)
    bw.flush();
  size_t total = bw.buffer->size();
  size_t cut = total;
  if (p->mode == 1) {
    // the byte channel between writer and reader is cut at offset `cut`
    unsigned c = (unsigned)p->cut_choice;
    cut = total ? c % (total + 1) : 0;
    if ((c & 3) == 1 && !ends.empty()) {  // bias: right at / next to a value boundary
      size_t b = ends[(c >> 2) % ends.size()];
      cut = (c >> 6) & 1 ? b : (b ? b - 1 : 0);
    }
  }
  // the reader gets a heap buffer of exactly `cut` bytes
  std::shared_ptr<AbstractArray<uint8_t>> rbuf;
  if (cut == total && p->mode == 0 && (p->cut_choice & 1)) {
    rbuf = bw.buffer;  // read straight from the writer's buffer
  } else {
    rbuf = std::make_shared<OwnedArray<uint8_t>>(bw.buffer->data(), cut);
  }
  BufferReader rd(rbuf);
  int before = 0, threw_at = -1;
  for (size_t i = 0; i < vals.size(); i++) {
    bool whole = ends[i] <= cut;
    if (rd.end() != (rd.cursor >= cut)) {
      a15_fail("C15:end-wrong", "end() does not reflect the cursor position");
      return;
    }
    if (i > 0 && rd.cursor != ends[i - 1]) {
      a15_fail("C15:cursor-wrong", "reader cursor is not at the end of the previous value");
      return;
    }
    if (whole && rd.end() && ends[i] != (i ? ends[i - 1] : 0)) {
      a15_fail("C15:end-true-too-early", "end() is true although unread values remain");
      return;
    }
    try {
      bool same = read_and_compare(rd, vals[i]);
      if (!whole) {
        a15_fail("C15:read-past-cut-accepted", "a value extending past the end of the data was read without an exception");
        return;
      }
      if (!same) {
        a15_fail("C15:value-differs", "a value read back differs from the value written");
        return;
      }
      before++;
    } catch (const std::runtime_error &) {
      if (whole) {
        a15_fail("C15:valid-read-rejected", "reading a completely transmitted value threw");
        return;
      }
      threw_at = (int)i;
      break;
    } catch (const std::exception &) {
      a15_fail("C15:unexpected-exception-type", "a read past the end threw something else than runtime_error");
      return;
    }
  }
  if (threw_at < 0) {
    if (rd.cursor != total || !rd.end()) {
      a15_fail("C15:end-false-after-last-value", "after reading every value the reader is not at the end (end() false or cursor != bytes written)");
      return;
    }
    // one more read must be refused
    try {
      uint8_t x;
      rd >> x;
      a15_fail("C15:read-past-end-accepted", "a read after the last value did not throw");
      return;
    } catch (const std::runtime_error &) {
    }
    // a view past the end must be refused too
    try {
      auto v = rd.getView<uint8_t>(1);
      a15_fail("C15:view-past-end-accepted", "getView past the end did not throw");
      return;
    } catch (const std::runtime_error &) {
    }
  }
  // requests so large that cursor + size wraps around: a view or a skip (read into no buffer) of that size extends
  // past the data like any other
  {
    BufferReader rh(rbuf);
    uint8_t first;
    if (cut > 0)
      rh >> first;
    const size_t at = rh.cursor;
    const size_t absurd[] = {~(size_t)0, ~(size_t)0 - at + 1, ~(size_t)0 - at + 1 + cut / 2, ((size_t)1 << 63) + 7};
    for (size_t n : absurd) {
      if (n <= cut - at)
        continue;
      for (int how = 0; how < 2; how++) {
        bool threw = false;
        try {
          if (how == 0)
            rh.getView<uint8_t>(n);
          else
            rh.read(nullptr, n);
        } catch (const std::runtime_error &) {
          threw = true;
        }
        if (!threw || rh.cursor != at) {
          a15_fail(how == 0 ? "C15:view-past-end-accepted" : "C15:read-past-end-accepted",
                   "a request whose size makes cursor + size wrap around was not refused (or moved the cursor)");
          return;
        }
      }
    }
  }
  // views: read the whole (uncut part of the) stream again through getView
  {
    BufferReader rv(rbuf);
    size_t half = cut / 2;
    auto v1 = rv.getView<uint8_t>(half);
    auto v2 = rv.getView<uint8_t>(cut - half);
    if (v1->size() != half || v2->size() != cut - half || !rv.end()) {
      a15_fail("C15:view-size-wrong", "getView sizes / cursor wrong");
      return;
    }
    for (size_t i = 0; i < half; i++)
      if ((*v1)[i] != (*bw.buffer)[i]) {
        a15_fail("C15:view-content-wrong", "getView content differs from the written bytes");
        return;
      }
    for (size_t i = 0; i < cut - half; i++)
      if ((*v2)[i] != (*bw.buffer)[half + i]) {
        a15_fail("C15:view-content-wrong", "getView content differs from the written bytes");
        return;
      }
  }
  if (p->mode == 1 && cut < total)
    for (size_t e : ends)
      if (e == cut) {
        a15_probe(1);
        break;
      }
  a15_note_cut(total, cut, before, threw_at);
}

// a reader on the writer's own (shared, growing) buffer, created before everything is written:
// what has been written so far must be readable, end() must say whether unread bytes remain
void interleaved(const A15Plan *p)
{
  std::vector<Held> vals;
  for (int i = 0; i < p->nvals; i++)
    vals.push_back(make(p->vals[i]));
  BufferWriter bw;
  std::unique_ptr<BufferReader> rd;
  size_t written = 0, readn = 0;
  std::vector<size_t> ends;
  unsigned pattern = (unsigned)p->cut_choice;
  int steps = 0;
  while (readn < vals.size()) {
    if (!rd && (int)written >= p->reader_at)
      rd.reset(new BufferReader(bw.buffer));
    bool can_write = written < vals.size();
    bool can_read = rd && readn < written;
    bool do_write = can_write && (!can_read || ((pattern >> (steps++ % 16)) & 1));
    if (do_write) {
      write_value(bw, vals[written]);
      if (p->flush_mask >> (written & 14) & 1)
        bw.flush();
      ends.push_back(bw.buffer->size());
      written++;
      continue;
    }
    if (!can_read) {
      a15_fail("C15:interleaved:stuck", "harness error");
      return;
    }
    size_t expect_cursor = readn ? ends[readn - 1] : 0;
    if (rd->cursor != expect_cursor) {
      a15_fail("C15:cursor-wrong", "reader cursor is not at the end of the previous value");
      return;
    }
    bool unread = ends[written - 1] > expect_cursor;
    if (rd->end() == unread) {
      a15_fail(unread ? "C15:end-true-too-early" : "C15:end-false-after-last-value", "end() does not say whether written bytes remain unread (reader attached to a writer that is still writing)");
      return;
    }
    try {
      if (!read_and_compare(*rd, vals[readn])) {
        a15_fail("C15:value-differs", "a value read back differs from the value written");
        return;
      }
    } catch (const std::exception &) {
      a15_fail("C15:valid-read-rejected", "reading a completely written value threw (reader attached to a writer that is still writing)");
      return;
    }
    readn++;
  }
  if (rd && (!rd->end() || rd->cursor != bw.buffer->size())) {
    a15_fail("C15:end-false-after-last-value", "after reading every value the reader is not at the end");
    return;
  }
  a15_probe(8);
  a15_note_cut(bw.buffer->size(), bw.buffer->size(), (int)readn, -1);
}

void fixed_device(const A15Plan *p)
{
  // total bytes the script would need
  size_t needed = 0;
  for (int i = 0; i < p->nfix; i++)
    needed += p->fix[i].size > 0 ? (size_t)p->fix[i].size : 0;
  size_t cap;
  switch (p->capacity_choice) {
  case 0: cap = needed ? needed - 1 : 0; break;
  case 1: cap = needed; break;
  case 2: cap = needed + 1; break;
  default: cap = (size_t)p->capacity_random; break;
  }
  FixedBufferWriter fw(cap);
  std::vector<uint8_t> model;  // bytes accepted so far
  int accepted = 0, rejected = 0, exact = 0, oneover = 0;
  if (fw.capacity() != cap || fw.available() != cap) {
    a15_fail("C15:fixed:capacity-wrong", "capacity()/available() of a fresh FixedBufferWriter");
    return;
  }
  for (int i = 0; i < p->nfix; i++) {
    if (p->fix[i].size < 0) {
      // a request so large that cursor + size wraps around (a reservation, or a write from no buffer): it does not fit
      const size_t at = model.size();
      const size_t n = p->fix[i].size == -1 ? ~(size_t)0 : (p->fix[i].size == -2 ? ~(size_t)0 - at + 1 + (cap - at) / 2 : ((size_t)1 << 63) + 3);
      bool threw = false;
      if (n > cap - at) {
        try {
          if (p->fix[i].reserve)
            fw.reserve(n);
          else
            fw.write(nullptr, n);
        } catch (const std::runtime_error &) {
          threw = true;
        }
        if (!threw || fw.cursor != at || fw.available() != cap - at) {
          a15_fail("C15:fixed:overflowing-write-accepted", "a write/reservation whose size makes cursor + size wrap around was accepted (or changed the cursor)");
          return;
        }
        rejected++;
      }
      continue;
    }
    size_t n = (size_t)p->fix[i].size;
    bool fits = model.size() + n <= cap;
    if (model.size() + n == cap)
      exact++;
    if (model.size() + n == cap + 1)
      oneover++;
    std::vector<uint8_t> data(n);
    for (size_t k = 0; k < n; k++)
      data[k] = (uint8_t)mix((uint64_t)i * 1000 + k);
    bool threw = false;
    try {
      if (p->fix[i].reserve) {
        void *mem = fw.reserve(n);
        if (n)
          std::memcpy(mem, data.data(), n);  // a reservation is usable for its full size
      } else {
        fw.write(data.data(), n);
      }
    } catch (const std::runtime_error &) {
      threw = true;
    }
    if (fits && threw) {
      a15_fail("C15:fixed:fitting-write-rejected", "a write/reservation that fits in the remaining capacity was rejected");
      return;
    }
    if (!fits && !threw) {
      a15_fail("C15:fixed:overflowing-write-accepted", "a write/reservation exceeding the remaining capacity was accepted");
      return;
    }
    if (!threw) {
      model.insert(model.end(), data.begin(), data.end());
      accepted++;
    } else
      rejected++;
    if (fw.cursor != model.size() || fw.available() != cap - model.size() || fw.capacity() != cap) {
      a15_fail("C15:fixed:accounting-wrong", "cursor/available()/capacity() do not describe what was written");
      return;
    }
    auto view = fw.getWrittenView();
    if (view->size() != model.size()) {
      a15_fail("C15:fixed:written-view-size", "getWrittenView() size differs from the bytes written");
      return;
    }
    for (size_t k = 0; k < model.size(); k++)
      if ((*view)[k] != model[k]) {
        a15_fail("C15:fixed:written-view-content", "getWrittenView() content differs from the bytes written");
        return;
      }
  }
  a15_note_fixed(accepted, rejected, exact, oneover);
}

}  // namespace

extern "C" void a15_run()
{
  const A15Plan *p = a15_plan();
  if (p->mode == 2)
    fixed_device(p);
  else if (p->mode == 3)
    interleaved(p);
  else
    round_trip(p);
}
