#pragma once
// shared between the two halves of the C03 scenario
struct C03Op
{
  int kind;
  int arg;
};
enum { C03_OP_START = 0, C03_OP_STOP = 1, C03_OP_IDLE = 2, C03_OP_EXPECT = 3 };
struct C03Plan
{
  int launch;        // AsyncLoop::LaunchMethod
  int init_threads;  // >0: initTaskingSystem(n) first
  int body_cost;
  int spurious;
  int nops;
  C03Op ops[12];
  int ctrl_in_loop;  // 1: start/stop are issued from the body of a second AsyncLoop
  int crowd;         // > 0: that many other AsyncLoops (own thread each, idle or started and stopped) exist while the scripted one is used
  int busy_workers;  // 1: every tasking thread is occupied by long-running scheduled work from before the loop is constructed until after it is destroyed
};
enum {
  C03_BODY_ENTER = 1,
  C03_BODY_EXIT,
  C03_START_INVOKE,
  C03_START_RETURN,
  C03_STOP_INVOKE,
  C03_STOP_RETURN,
  C03_DTOR_INVOKE,
  C03_DTOR_RETURN,
  C03_CTOR_INVOKE,
  C03_CTOR_RETURN,
  C03_EXPECT_BEGIN,
  C03_EXPECT_END
};
extern "C" {
const C03Plan *c03_plan();
void c03_ev(int code);
void c03_body_enter();
void c03_body_exit();
void c03_expect_progress();
int c03_ctrl_next();          // next script position for the controlling loop (-1: script finished)
void c03_ctrl_wait_done();    // thread 0 waits until the controlling loop has run the whole script
void c03_blocker();           // body of the long-running work
void c03_wait_blockers(int n);
void c03_release_blockers();
void c03_crowd_body();         // body of the other loops
void c03_run();
}
