// C02 — schedule / async / AsyncTask. Oracle half.
#include <stdio.h>
#include <string.h>

#include <set>

#include "../rt/sim_api.h"
#include "c02.h"

extern "C" unsigned rksim_lane_bit();

namespace {
C02Plan plan;
enum { MAXID = C02_MAXITEMS + 2200 };
struct St
{
  int exec[MAXID];
  int exec_done[MAXID];
  int created[MAXID];
  int delivered[MAXID];
  int destroyed[MAXID];
  int polled_true[MAXID];
  long tokens;
  int ncreated;
} st;
std::set<const void *> *live_tracked;

enum { P_TASK_BEFORE_CTOR_DONE = 0, P_FINISHED_TRUE, P_FINISHED_FALSE, P_GET_BLOCKED, P_GET_AFTER_FINISHED, P_DESTROY_BEFORE_DONE, P_BURST_GT_256, P_EXEC_ON_OTHER_THREAD, P_EXEC_ON_CALLER, P_REINIT, P_NESTED_HANDOVER, P_EXPECT_RUN };
const char *probe_names[] = {"task_started_before_owner_constructor_returned", "finished_polled_true", "finished_polled_false",
                             "get_really_blocked", "get_after_finished_true", "destroy_began_before_task_done", "burst_larger_than_pipe",
                             "task_ran_on_other_thread", "task_ran_on_calling_thread", "tasking_system_reinitialised_with_tasks_in_flight", "function_hands_over_a_function_and_waits_for_it", "function_ran_while_the_caller_only_let_time_pass", nullptr};
const char *no_faults[] = {nullptr};

void reset()
{
  memset(&plan, 0, sizeof plan);
  memset(&st, 0, sizeof st);
  delete live_tracked;
  live_tracked = new std::set<const void *>();
}

void do_plan(int tier)
{
  unsigned lane = rksim_lane_bit();
  if (lane == LANE_DEBUG)
    plan.init_threads = 0;
  else if (lane == LANE_INTERNAL) {
    plan.init_threads = 1 + (int)sim_plan(4);  // 1: the calling thread is the only tasking thread
    if (sim_plan(8) == 0) {
      plan.init_threads = 0;  // never initialised: the back end creates its scheduler on first use
      plan.lazy_teardown = 1;
    }
  }
  else
    plan.init_threads = sim_plan(3) ? 1 + (int)sim_plan(4) : 0;
  int cores = 2 + (int)sim_plan(4);
  sim_set_cores(cores);
  sim_set_affinity(sim_plan(6) == 0 ? 1 + (int)sim_plan((uint32_t)cores - 1) : 0);  // the process may be confined to fewer CPUs than are online
  sim_set_tso(sim_plan(lane == LANE_INTERNAL ? 2 : 4) == 0);  // x86-TSO store buffering instead of sequential consistency
  plan.interleave = (int)sim_plan(2);
  plan.nitems = 1 + (int)sim_plan(C02_MAXITEMS);
  for (int i = 0; i < plan.nitems; i++) {
    C02Item &it = plan.items[i];
    unsigned a = sim_plan(5);
    it.api = a < 1 ? C02_SCHEDULE : (a < 3 ? C02_ASYNC : C02_ASYNCTASK);
    it.type = (int)sim_plan(4);
    it.task_work = (int)sim_plan(4);
    it.ctor_work = (int)sim_plan(4);
    it.natural = sim_plan(6) == 0;
    it.nact = (int)sim_plan(6);
    for (int k = 0; k < it.nact; k++) {
      it.act[k] = (int)sim_plan(C02_A_NACT);
      it.act_arg[k] = 1 + (int)sim_plan(4);
    }
  }
  unsigned b = sim_plan(20);
  plan.burst = 0;
  if (b == 0) {
    int maxb = tier ? (lane == LANE_OMP ? 2000 : 2000) : 300;
    plan.burst = 1 + (int)sim_plan((uint32_t)maxb);
  } else if (b < 5) {
    plan.burst = 1 + (int)sim_plan(8);
  }
  plan.reinit_threads = 0;
  if (plan.init_threads > 0 && sim_plan(5) == 0) {
    plan.reinit_threads = 1 + (int)sim_plan(3);
    sim_probe(P_REINIT);
  }
  // one function may itself hand over a function and wait for it (needs a tasking thread that is free to run it: the caller
  // itself when there is no worker, or two workers; a single worker would be the one that waits)
  {
    int eff = plan.init_threads;
    bool can = plan.reinit_threads == 0 &&
               (lane == LANE_DEBUG || lane == LANE_OMP || (lane == LANE_INTERNAL && (eff == 1 || eff >= 3)) || (lane == LANE_TBB && eff >= 3));
    if (can && sim_plan(4) == 0) {
      int which = (int)sim_plan((uint32_t)plan.nitems);
      plan.items[which].nested = 1;
      sim_probe(P_NESTED_HANDOVER);
    }
  }
  plan.sporadic = 0;
  if (lane != LANE_DEBUG && sim_plan(6) == 0) {
    plan.sporadic = 1 + (int)sim_plan(6);
    static const int idles[] = {0, 40, 400, 1100, 1300, 1500, 1800};
    for (int k = 0; k < plan.sporadic; k++)
      plan.sporadic_idle[k] = idles[sim_plan(7)] + (int)sim_plan(300);
    // two functions handed over back to back to sleeping workers, the first one long-lived (it waits for the second):
    // needs two workers besides the caller
    for (int k = 0; k < plan.sporadic; k++)
      plan.sporadic_pair[k] = (plan.reinit_threads > 0 ? plan.reinit_threads : plan.init_threads) >= 3 && (lane == LANE_INTERNAL || lane == LANE_TBB) && sim_plan(3) == 0;
  }
  if (plan.burst > 256)
    sim_probe(P_BURST_GT_256);
  if (plan.burst > 40)
    sim_hb_enable(0), sim_set_step_cap(3000000);
  else
    sim_set_step_cap(plan.sporadic ? 1500000 : 600000);
}

void check()
{
  int total = plan.nitems + plan.burst + plan.sporadic;
  for (int i = 0; i < total; i++) {
    int id = i < plan.nitems ? i : (i < plan.nitems + plan.burst ? C02_MAXITEMS + (i - plan.nitems) : C02_MAXITEMS + 2000 + (i - plan.nitems - plan.burst));
    if (st.created[id] && st.exec[id] != 1)
      sim_fail("C02:not-executed-exactly-once", "function %d executed %d times", id, st.exec[id]);
    if (st.created[id] && st.exec_done[id] != 1)
      sim_fail("C02:not-executed-exactly-once", "function %d completed %d times", id, st.exec_done[id]);
  }
  for (int i = 0; i < plan.nitems; i++) {
    int cid = C02_MAXITEMS + 2150 + i;
    if (st.created[cid] && (st.exec[cid] != 1 || st.exec_done[cid] != 1))
      sim_fail("C02:not-executed-exactly-once", "the function handed over from inside function %d executed %d times", i, st.exec[cid]);
  }
  for (int i = 0; i < plan.nitems; i++)
    if (plan.items[i].api == C02_ASYNC && !st.delivered[i])
      sim_fail("C02:result-never-delivered", "item %d: no result reached the consumer", i);
  if (st.tokens != 0)
    sim_fail("C02:closure-state-leaked-or-overfreed", "%ld copies of closure state still alive after every task ran and every handle was released", st.tokens);
  if (!live_tracked->empty())
    sim_fail("C02:result-object-leaked", "%zu result objects never destroyed", live_tracked->size());
}

int stuck(int deadlock, char *cls, size_t n)
{
  int ph = sim_get_phase();
  if (deadlock) {
    snprintf(cls, n, ph <= 1 ? "C02:deadlock-in-get-wait-or-destroy" : (ph == 2 ? "C02:deadlock-in-drain" : "C02:deadlock-in-teardown"));
    return 1;
  }
  return 0;
}

void describe(char *buf, size_t n)
{
  static const char *api[] = {"schedule", "async", "AsyncTask"};
  static const char *ty[] = {"int", "string", "vector<int>", "Tracked"};
  static const char *an[] = {"finished", "valid", "wait", "get", "idle", "expect-run-without-waiting"};
  int k = snprintf(buf, n, "{\"init_threads\": %d, \"reinit_threads\": %d, \"interleave\": %d, \"burst\": %d, \"sporadic_tasks_after_idle\": %d, \"items\": [", plan.init_threads, plan.reinit_threads, plan.interleave, plan.burst, plan.sporadic);
  for (int i = 0; i < plan.nitems && k < (int)n - 300; i++) {
    const C02Item &it = plan.items[i];
    k += snprintf(buf + k, n - k, "%s{\"api\": \"%s<%s>\", \"task_work\": %d, \"ctor_work\": %d, \"returns_zero_or_empty\": %d, \"hands_over_a_function_and_waits\": %d, \"script\": [", i ? "," : "", api[it.api],
                  ty[it.type], it.task_work, it.ctor_work, it.natural, it.nested);
    for (int a = 0; a < it.nact; a++)
      k += snprintf(buf + k, n - k, "%s\"%s\"", a ? "," : "", an[it.act[a]]);
    k += snprintf(buf + k, n - k, "]}");
  }
  snprintf(buf + k, n - k, "]}");
}

const SimScenario scen = {"c02", "C02", LANE_ALL, reset, do_plan, c02_run, check, stuck, describe, no_faults, probe_names, 0};
SimRegistrar reg(&scen);
}  // namespace

extern "C" {
const C02Plan *c02_plan() { return &plan; }
void c02_token(int delta) { st.tokens += delta; }

void c02_exec(int id)
{
  sim_event(200, (uint64_t)id, 0);
  st.exec[id]++;
  if (st.exec[id] > 1)
    sim_fail("C02:executed-twice", "function %d executed a second time", id);
  if (!st.created[id])
    sim_probe(P_TASK_BEFORE_CTOR_DONE);
  if (id < C02_MAXITEMS && st.destroyed[id] == 2)
    sim_fail("C02:task-ran-after-owner-destroyed", "task %d started after its AsyncTask was destroyed", id);
  sim_probe(sim_self() == 0 ? P_EXEC_ON_CALLER : P_EXEC_ON_OTHER_THREAD);
}
void c02_exec_done(int id)
{
  sim_event(201, (uint64_t)id, 0);
  st.exec_done[id]++;
}
void c02_created(int id)
{
  sim_event(202, (uint64_t)id, 0);
  st.created[id] = 1;
  st.ncreated++;
}

void c02_result(int id, int api, int type, long long value, int complete, int via)
{
  sim_event(203, (uint64_t)id, (uint64_t)value);
  st.delivered[id]++;
  (void)api;
  (void)type;
  if (!complete)
    sim_fail("C02:incomplete-result", "item %d: get() returned an incomplete (torn or truncated) value", id);
  if (value != 1000 + id)
    sim_fail("C02:wrong-result", "item %d: get() returned %lld, the function returned %d", id, value, 1000 + id);
  if (!st.exec_done[id])
    sim_fail("C02:result-before-function-finished", "item %d: a result was delivered before the function returned", id);
  if (via)
    sim_probe(P_GET_AFTER_FINISHED);
}

void c02_finished_polled(int id, int result)
{
  sim_event(204, (uint64_t)id, (uint64_t)result);
  sim_probe(result ? P_FINISHED_TRUE : P_FINISHED_FALSE);
  if (result) {
    st.polled_true[id] = 1;
    if (!st.exec_done[id])
      sim_fail("C02:finished-true-before-function-finished", "item %d: finished()/valid() returned true before the function returned", id);
  }
}

void c02_get_begin(int id) { sim_event(205, (uint64_t)id, 0); }
void c02_get_end(int id, unsigned long long b0, unsigned long long b1)
{
  sim_event(206, (uint64_t)id, b1 - b0);
  if (b1 != b0)
    sim_probe(P_GET_BLOCKED);
  if (st.polled_true[id] && b1 != b0)
    sim_fail("C02:get-blocked-after-finished-true", "item %d: finished() returned true but get() blocked %llu times", id, b1 - b0);
}

void c02_destroy_begin(int id)
{
  sim_event(207, (uint64_t)id, 0);
  st.destroyed[id] = 1;
  if (!st.exec_done[id])
    sim_probe(P_DESTROY_BEFORE_DONE);
}
void c02_destroy_end(int id)
{
  sim_event(208, (uint64_t)id, 0);
  st.destroyed[id] = 2;
  if (!st.exec_done[id])
    sim_fail("C02:destroyed-without-waiting", "item %d: the AsyncTask destructor returned before its task function finished", id);
}

void c02_tracked_ctor(const void *p)
{
  SimOracleScope os;
  live_tracked->insert(p);
}
void c02_tracked_dtor(const void *p)
{
  SimOracleScope os;
  if (!live_tracked->erase(p))
    sim_fail("C02:result-object-destroyed-but-not-constructed", "destructor ran on storage holding no live result object");
}
void c02_tracked_assign(const void *p)
{
  SimOracleScope os;
  if (!live_tracked->count(p))
    sim_fail("C02:result-assigned-before-construction", "a task assigned its result to storage whose result member is not (yet, or no longer) constructed");
}

void c02_wait_one(int id)
{
  // the hand-over happened under the run's scheduling strategy and memory model; whether the task
  // then runs "with no further action required from the caller" is judged in a fair, fault-free phase
  sim_set_fair(1);
  unsigned long long bound = sim_steps() + 30000ULL;
  while (!st.exec_done[id] && sim_steps() <= bound)
    sim_yield();
  if (!st.exec_done[id])
    sim_fail("C02:never-executed", "a function handed to schedule() after an idle period did not run within the fair bound although the caller only waited (lost wake-up)");
  sim_set_fair(0);
}

void c02_wait_item(int id)
{
  // "executed ... eventually, with no further action required from the caller": the caller neither waits on the handle nor
  // destroys it, it just lets time pass (fair, fault-free phase)
  sim_set_fair(1);
  unsigned long long bound = sim_steps() + 30000ULL;
  while (!st.exec_done[id] && sim_steps() <= bound)
    sim_yield();
  if (!st.exec_done[id])
    sim_fail("C02:never-executed", "the function of item %d did not run within the fair bound while the caller did nothing but let time pass (no wait(), get() or destruction)", id);
  else
    sim_probe(P_EXPECT_RUN);
  sim_set_fair(0);
}

void c02_wait_for(int id)
{
  while (!st.exec_done[id])
    sim_yield();
}

void c02_drain()
{
  // "eventually, with no further action required from the caller": fair, fault-free phase
  sim_set_fair(1);
  int total = plan.nitems + plan.burst;
  unsigned long long bound = sim_steps() + 20000ULL + 3000ULL * (unsigned long long)total;
  for (;;) {
    int missing = 0;
    for (int i = 0; i < total; i++) {
      int id = i < plan.nitems ? i : C02_MAXITEMS + (i - plan.nitems);
      if (st.created[id] && !st.exec_done[id])
        missing++;
    }
    if (!missing)
      break;
    if (sim_steps() > bound) {
      sim_fail("C02:never-executed", "%d scheduled functions did not run within the fair bound although the caller only waited", missing);
      break;
    }
    sim_yield();
  }
  sim_set_fair(0);
}
}
