#pragma once
#include <stdint.h>
// C19 — observers and time stamps. Shared between the halves.
enum { C19_NEW_OBSERVABLE = 0, C19_NEW_OBSERVER, C19_NOTIFY, C19_POLL, C19_DEL_OBSERVER, C19_DEL_OBSERVABLE, C19_COPY_OBSERVER, C19_COPY_OBSERVABLE, C19_ASSIGN_OBSERVER, C19_ASSIGN_OBSERVABLE, C19_NOBS_OPS };  // COPY_*: slot a is created as a copy of slot b; ASSIGN_*: slot a = slot b
enum { C19_S_FRESH = 0, C19_S_RENEW, C19_S_COPY, C19_S_MOVE, C19_S_ASSIGN, C19_S_MOVE_ASSIGN, C19_S_RENEW_MANY, C19_S_NOPS };
struct C19Op
{
  uint8_t kind, a, b;
};
enum { C19_MAXOBSERVABLES = 3, C19_MAXOBSERVERS = 44, C19_REGULAR_OBSERVERS = 4, C19_MAXTHREADS = 5, C19_MAXOPS = 16, C19_STAMPS = 4 };
struct C19Plan
{
  int nobs_ops;
  C19Op obs_ops[24];
  int nthreads;
  int nops[C19_MAXTHREADS];
  C19Op ops[C19_MAXTHREADS][C19_MAXOPS];
  int t0_stamp_ops;   // thread 0 also creates stamps between observer operations
  unsigned hop_mask;  // bit i: observer operation i is executed by a helper thread that is started and joined for it (creation, notification and
                      // polling of one pair then happen on different threads, fully ordered)
  int bulk_n, bulk_at, bulk_obs;   // bulk_n > 0: before operation bulk_at, observers 4..4+bulk_n-1 are attached to observable bulk_obs (if alive)
  int fast_forward;   // the process has already handed out 2^32-24 stamps (state injection)
};
extern "C" {
const C19Plan *c19_plan();
void c19_stamp(int tid, int kind, unsigned long long value, unsigned long long source_value);
int c19_obs_applicable(const C19Op *op);       // model says the operation can be applied now
void c19_obs_done(const C19Op *op, int poll_result);
void c19_run();
}
