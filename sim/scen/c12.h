#pragma once
#include <stdint.h>
// shared between the halves of the C12 scenarios
enum { C12_PUSH_COPY = 0, C12_PUSH_MOVE = 1, C12_CONSUME = 2, C12_SIZE = 3, C12_EMPTY = 4 };
struct C12BufPlan
{
  int payload;          // 0 int, 1 std::string
  int nproducers;
  int nitems[8];        // per producer
  int move_mask[8];     // bit k: item k pushed with the rvalue overload
  int work[8];          // extra scheduling points between pushes
  int nconsumer_ops;
  int consumer_ops[12]; // C12_CONSUME / C12_SIZE / C12_EMPTY
  int consumer_thread;  // 1: the consumer is its own thread, 0: thread 0 consumes
};
enum { C12V_UPDATE = 0, C12V_GET = 1, C12V_REF = 2 };
struct C12ValPlan
{
  int payload;          // 0 int, 1 std::string
  int nassign;
  int work;
  int nops;
  int ops[14];
  int empty_at;         // >= 1: this assignment writes the natural 'nothing' value of the payload type (0, empty string); -1: none
};
extern "C" {
const C12BufPlan *c12buf_plan();
int c12_op_begin(int kind, uint32_t value);                         // returns op id
void c12_op_end(int op, const uint32_t *vals, uint32_t n, uint64_t scalar);
void c12_final(const uint32_t *vals, uint32_t n);
void c12buf_run();

const C12ValPlan *c12val_plan();
void c12v_assign_begin(int idx);
void c12v_assign_end(int idx);
void c12v_observe(int opkind, int before_idx, int after_idx, int update_ret);
void c12v_producer_joined();
void c12v_final(int idx);
void c12val_run();
}
