// C20 — trace log and image writers. Oracle half: strict JSON parser, per-thread event-sequence
// equality, independent image decoder.
#include <math.h>
#include <stdio.h>
#include <string.h>
#include <sys/stat.h>
#include <unistd.h>

#include <algorithm>
#include <map>
#include <string>
#include <vector>

#include "../rt/sim_api.h"
#include "c20.h"

namespace {

// 4 common names, then 200 more: mostly short (stored inside a std::string object), every seventh long (on the heap)
struct NamePool
{
  char store[C20_NAMES][64];
  const char *ptr[C20_NAMES + C20_HUGE_NAMES];
  char *huge[C20_HUGE_NAMES];
  NamePool()
  {
    static const size_t hl[C20_HUGE_NAMES] = {40000, 65000, 100000};
    for (int h = 0; h < C20_HUGE_NAMES; h++) {
      huge[h] = (char *)malloc(hl[h] + 1);
      for (size_t k = 0; k < hl[h]; k++)
        huge[h][k] = (char)('a' + (k * 7 + (size_t)h) % 26);
      huge[h][hl[h]] = 0;
      ptr[C20_NAMES + h] = huge[h];
    }
    static const char *first[] = {"render", "frame", "commit", "x"};
    for (int i = 0; i < C20_NAMES; i++) {
      if (i < 4)
        snprintf(store[i], sizeof store[i], "%s", first[i]);
      else if (i % 7 == 3)
        snprintf(store[i], sizeof store[i], "a-rather-long-event-name-kept-on-the-heap-%03d", i);
      else if (i % 7 == 5)  // names are UTF-8 text: bytes above 0x7f need no escaping in JSON and must come back as they are
        snprintf(store[i], sizeof store[i], i % 2 ? "Gr\xc3\xb6\xc3\x9f" "e-%03d" : "\xe6\xb8\xb2\xe6\x9f\x93-%03d", i);
      else
        snprintf(store[i], sizeof store[i], "n%03d", i);
      ptr[i] = store[i];
    }
  }
};
NamePool name_pool;
const char *const *NAMES = name_pool.ptr;
const char *CATS[] = {"cat-one", "io", nullptr};
char g_path[256];

// ---------------------------------------------------------------- strict RFC 8259 parser
struct J
{
  enum T { NUL, BOOL, NUM, STR, ARR, OBJ } t = NUL;
  double num = 0;
  std::string str;
  std::vector<J> arr;
  std::vector<std::pair<std::string, J>> obj;
  const J *get(const char *k) const
  {
    for (auto &p : obj)
      if (p.first == k)
        return &p.second;
    return nullptr;
  }
};
struct Parser
{
  const char *p, *end;
  std::string err;
  int depth = 0;
  bool fail(const char *m)
  {
    if (err.empty()) {
      char b[160];
      snprintf(b, sizeof b, "%s at byte %ld", m, (long)(p - start));
      err = b;
    }
    return false;
  }
  const char *start;
  void ws()
  {
    while (p < end && (*p == ' ' || *p == '\n' || *p == '\t' || *p == '\r'))
      p++;
  }
  bool value(J &v)
  {
    ws();
    if (p >= end)
      return fail("unexpected end");
    if (++depth > 64)
      return fail("too deep");
    bool ok = value2(v);
    depth--;
    return ok;
  }
  bool value2(J &v)
  {
    char c = *p;
    if (c == '{') {
      v.t = J::OBJ;
      p++;
      ws();
      if (p < end && *p == '}') {
        p++;
        return true;
      }
      for (;;) {
        ws();
        J k;
        if (p >= end || *p != '"' || !string(k.str))
          return fail("object key expected");
        ws();
        if (p >= end || *p != ':')
          return fail("':' expected");
        p++;
        J x;
        if (!value(x))
          return false;
        v.obj.emplace_back(k.str, std::move(x));
        ws();
        if (p < end && *p == ',') {
          p++;
          continue;
        }
        if (p < end && *p == '}') {
          p++;
          return true;
        }
        return fail("',' or '}' expected");
      }
    }
    if (c == '[') {
      v.t = J::ARR;
      p++;
      ws();
      if (p < end && *p == ']') {
        p++;
        return true;
      }
      for (;;) {
        J x;
        if (!value(x))
          return false;
        v.arr.push_back(std::move(x));
        ws();
        if (p < end && *p == ',') {
          p++;
          continue;
        }
        if (p < end && *p == ']') {
          p++;
          return true;
        }
        return fail("',' or ']' expected");
      }
    }
    if (c == '"') {
      v.t = J::STR;
      return string(v.str);
    }
    if (end - p >= 4 && !strncmp(p, "true", 4)) {
      v.t = J::BOOL;
      v.num = 1;
      p += 4;
      return true;
    }
    if (end - p >= 5 && !strncmp(p, "false", 5)) {
      v.t = J::BOOL;
      p += 5;
      return true;
    }
    if (end - p >= 4 && !strncmp(p, "null", 4)) {
      p += 4;
      return true;
    }
    return number(v);
  }
  bool string(std::string &out)
  {
    p++;
    while (p < end && *p != '"') {
      unsigned char ch = (unsigned char)*p;
      if (ch < 0x20)
        return fail("control character in string");
      if (ch == '\\') {
        p++;
        if (p >= end)
          return fail("bad escape");
        switch (*p) {
        case '"': out += '"'; break;
        case '\\': out += '\\'; break;
        case '/': out += '/'; break;
        case 'b': out += '\b'; break;
        case 'f': out += '\f'; break;
        case 'n': out += '\n'; break;
        case 'r': out += '\r'; break;
        case 't': out += '\t'; break;
        case 'u':
          if (end - p < 5)
            return fail("bad \\u escape");
          for (int i = 1; i <= 4; i++)
            if (!isxdigit((unsigned char)p[i]))
              return fail("bad \\u escape");
          {
            // decode to UTF-8, so that a writer that escapes non-ASCII text compares equal to one that writes it raw
            unsigned cp = (unsigned)strtoul(std::string(p + 1, 4).c_str(), nullptr, 16);
            p += 4;
            if (cp >= 0xd800 && cp <= 0xdbff && end - p >= 7 && p[1] == '\\' && p[2] == 'u') {
              bool hex = true;
              for (int i = 3; i <= 6; i++)
                hex &= isxdigit((unsigned char)p[i]) != 0;
              unsigned lo = hex ? (unsigned)strtoul(std::string(p + 3, 4).c_str(), nullptr, 16) : 0;
              if (lo >= 0xdc00 && lo <= 0xdfff) {
                cp = 0x10000 + ((cp - 0xd800) << 10) + (lo - 0xdc00);
                p += 6;
              }
            }
            if (cp < 0x80)
              out += (char)cp;
            else if (cp < 0x800) {
              out += (char)(0xc0 | cp >> 6);
              out += (char)(0x80 | (cp & 0x3f));
            } else if (cp < 0x10000) {
              out += (char)(0xe0 | cp >> 12);
              out += (char)(0x80 | (cp >> 6 & 0x3f));
              out += (char)(0x80 | (cp & 0x3f));
            } else {
              out += (char)(0xf0 | cp >> 18);
              out += (char)(0x80 | (cp >> 12 & 0x3f));
              out += (char)(0x80 | (cp >> 6 & 0x3f));
              out += (char)(0x80 | (cp & 0x3f));
            }
          }
          break;
        default: return fail("bad escape");
        }
        p++;
      } else
        out += *p++;
    }
    if (p >= end)
      return fail("unterminated string");
    p++;
    return true;
  }
  bool number(J &v)
  {
    const char *s = p;
    if (p < end && *p == '-')
      p++;
    if (p >= end)
      return fail("number expected");
    if (*p == '0')
      p++;
    else if (*p >= '1' && *p <= '9')
      while (p < end && isdigit((unsigned char)*p))
        p++;
    else
      return fail("value expected");
    if (p < end && *p == '.') {
      p++;
      if (p >= end || !isdigit((unsigned char)*p))
        return fail("digit expected after '.'");
      while (p < end && isdigit((unsigned char)*p))
        p++;
    }
    if (p < end && (*p == 'e' || *p == 'E')) {
      p++;
      if (p < end && (*p == '+' || *p == '-'))
        p++;
      if (p >= end || !isdigit((unsigned char)*p))
        return fail("digit expected in exponent");
      while (p < end && isdigit((unsigned char)*p))
        p++;
    }
    v.t = J::NUM;
    v.num = strtod(std::string(s, p).c_str(), nullptr);
    return true;
  }
};

bool read_file(const char *path, std::string &out)
{
  FILE *f = fopen(path, "rb");
  if (!f)
    return false;
  char buf[65536];
  size_t n;
  out.clear();
  while ((n = fread(buf, 1, sizeof buf, f)) > 0)
    out.append(buf, n);
  fclose(f);
  return true;
}

// ---------------------------------------------------------------- trace
C20TPlan tplan;
struct Rec
{
  int kind, name, cat;
  unsigned long long value;
};
std::vector<Rec> *recorded[C20_MAXT];
bool thread_began[C20_MAXT];
unsigned long long thread_key[C20_MAXT];
int begin_order[C20_MAXT];
int begin_counter;
bool saved;

enum { PT_CHUNK_CROSSED = 0, PT_EMPTY_LOG, PT_ONE_EVENT, PT_EXACT_CHUNK, PT_MULTI_THREAD, PT_NESTED_GE2, PT_CPU_COUNTER, PT_NO_PROCESS_NAME, PT_ID_RECYCLED, PT_CXX_LOCALE, PT_OPEN_AT_SAVE, PT_SAME_NAMES };
const char *tprobe_names[] = {"thread_crossed_chunk_boundary", "log_with_no_event", "thread_with_exactly_one_event", "thread_with_exactly_one_chunk",
                              "two_or_more_recording_threads", "nesting_depth_ge_2", "auxiliary_cpu_counter_in_file", "no_process_name", "thread_id_reused_by_a_later_recording_thread", "global_cxx_locale_with_decimal_comma_and_grouping", "begin_event_still_open_when_the_log_is_saved", "several_recording_threads_with_the_same_name", nullptr};
const char *tfault_names[] = {"(unused)", "clock_jump", nullptr};

void treset()
{
  memset(&tplan, 0, sizeof tplan);
  for (int i = 0; i < C20_MAXT; i++) {
    delete recorded[i];
    recorded[i] = new std::vector<Rec>();
    thread_began[i] = false;
    thread_key[i] = 0;
    begin_order[i] = 0;
  }
  begin_counter = 0;
  saved = false;
  mkdir("/verif/build/scratch", 0777);
  snprintf(g_path, sizeof g_path, "/verif/build/scratch/c20_%d.out", (int)getpid());
  unlink(g_path);
}

void tplan_common(int tier, int global)
{
  tplan.global_api = global;
  sim_set_tso(sim_plan(4) == 0);
  static const unsigned chunks[] = {2, 3, 8, 8192};
  tplan.chunk = chunks[sim_plan(4)];
  int maxt = tier ? 8 : 4;
  unsigned k = sim_plan(8);
  tplan.nthreads = k == 0 ? 0 : 1 + (int)sim_plan((uint32_t)maxt);
  tplan.t0_records = (int)sim_plan(2);
  tplan.sequential = sim_plan(4) == 0;
  tplan.process_name = (int)sim_plan(3) != 0;
  sim_set_clock_jumps((int)sim_plan(2));
  tplan.many_names = sim_plan(4) == 0;
  tplan.huge_names = !tplan.many_names && sim_plan(16) == 0;
  tplan.cxx_locale = sim_plan(6) == 0;
  tplan.extra_save = sim_plan(5) == 0 ? 1 + (int)sim_plan(2) : 0;
  for (int t = 0; t < tplan.nthreads; t++) {
    tplan.named[t] = 1;
    unsigned b = sim_plan(10);
    tplan.bulk[t] = 0;
    if (tplan.many_names && b != 0 && sim_plan(2))
      tplan.bulk[t] = 20 + (int)sim_plan(120);
    if (tplan.huge_names)
      tplan.bulk[t] = (int)sim_plan(48);  // with the scripted events: up to several megabytes of log text
    if (b == 0)
      tplan.bulk[t] = tplan.chunk <= 8 ? (int)tplan.chunk - 1 + (int)sim_plan(3) : (tier && sim_plan(6) == 0 ? 8190 + (int)sim_plan(4) : 0);
    unsigned n = sim_plan(6);
    tplan.nops[t] = n == 0 ? 0 : (n == 1 ? 1 : 2 + (int)sim_plan(C20_MAXOPS - 2));
    if (tplan.nthreads > 4 && tplan.nops[t] > 10)
      tplan.nops[t] = 10;
    for (int i = 0; i < tplan.nops[t]; i++) {
      C20TOp &op = tplan.ops[t][i];
      static const uint8_t kinds[] = {C20_BEGIN, C20_BEGIN, C20_END, C20_END, C20_MARKER, C20_COUNTER};
      op.kind = kinds[sim_plan(6)];
      op.name = (uint8_t)(tplan.huge_names ? C20_NAMES + sim_plan(C20_HUGE_NAMES) : (tplan.many_names ? 4 + sim_plan(C20_NAMES - 4) : sim_plan(4)));
      op.cat = (uint8_t)sim_plan(3);
      op.value = sim_plan(3) == 0 ? 0xffffffffu - sim_plan(5) : sim_plan(100000);
    }
  }
  // a single unnamed thread is identifiable too (it is the only one)
  if (tplan.nthreads == 1 && sim_plan(3) == 0)
    tplan.named[0] = 0;
  tplan.leave_open = sim_plan(8) == 7;
  tplan.same_names = tplan.nthreads >= 2 && sim_plan(8) == 6;
  if (tplan.same_names)
    for (int t = 0; t < tplan.nthreads; t++)
      tplan.named[t] = 1;  // drawn last: earlier draws keep their meaning
  sim_set_step_cap(6000000);
}
void tplan_private(int tier) { tplan_common(tier, 0); }
void tplan_global(int tier) { tplan_common(tier, 1); }

std::string evkey(const char *ph, const std::string &name, const std::string &cat, bool has_cat, double value, bool has_value)
{
  char b[400];
  snprintf(b, sizeof b, "%s|%s|%s|%s", ph, name.c_str(), has_cat ? cat.c_str() : "<none>", has_value ? std::to_string((unsigned long long)value).c_str() : "-");
  return b;
}

void tcheck()
{
  if (!saved) {
    sim_fail("C20:trace:saveLog-not-reached", "saveLog did not run");
    return;
  }
  std::string text;
  if (!read_file(g_path, text)) {
    sim_fail("C20:trace:no-file", "saveLog wrote no file");
    return;
  }
  unlink(g_path);
  J root;
  Parser ps;
  ps.p = ps.start = text.data();
  ps.end = text.data() + text.size();
  bool ok = ps.value(root);
  if (ok) {
    ps.ws();
    if (ps.p != ps.end)
      ok = ps.fail("trailing bytes after the document");
  }
  if (!ok) {
    std::string head = text.substr(0, 60);
    for (auto &c : head)
      if ((unsigned char)c < 0x20)
        c = ' ';
    sim_fail("C20:trace:not-well-formed-json", "%s (file of %zu bytes begins: %s)", ps.err.c_str(), text.size(), head.c_str());
    return;
  }
  if (root.t != J::ARR) {
    sim_fail("C20:trace:not-a-json-array", "top-level value is not an array");
    return;
  }
  // group by tid
  std::map<long, std::string> tname;
  std::map<long, std::vector<std::string>> evs;
  for (auto &e : root.arr) {
    if (e.t != J::OBJ) {
      sim_fail("C20:trace:event-not-an-object", "array element is not an object");
      return;
    }
    const J *ph = e.get("ph"), *tid = e.get("tid"), *name = e.get("name");
    if (!ph || ph->t != J::STR || !tid || tid->t != J::NUM || !name || name->t != J::STR) {
      sim_fail("C20:trace:event-fields-missing", "event without ph/tid/name");
      return;
    }
    long t = (long)tid->num;
    if (ph->str == "M") {
      if (name->str == "thread_name") {
        const J *a = e.get("args");
        const J *n = a ? a->get("name") : nullptr;
        tname[t] = n ? n->str : "";
      }
      continue;
    }
    const J *cat = e.get("cat");
    const J *args = e.get("args");
    if (ph->str == "C" && name->str == "cpuUtilization" && cat && cat->str == "builtin") {
      sim_probe(PT_CPU_COUNTER);
      continue;
    }
    const J *val = args ? args->get("value") : nullptr;
    bool is_counter = ph->str == "C";
    evs[t].push_back(evkey(ph->str.c_str(), name->str, cat ? cat->str : "", cat != nullptr, val ? val->num : 0, is_counter && val));
  }
  // Threads that ran one after another can have the same OS thread id; the recorder keys its lists by
  // that id, so such threads share one list: their events appear, in recording order, under one
  // entry that carries the name set last.
  bool any_event = false;
  std::vector<int> order;
  for (int s2 = 0; s2 < tplan.nthreads; s2++)
    if (thread_began[s2])
      order.push_back(s2);
  std::sort(order.begin(), order.end(), [](int x, int y) { return begin_order[x] < begin_order[y]; });
  std::vector<std::pair<unsigned long long, std::vector<int>>> groups;
  for (int s2 : order) {
    bool found = false;
    for (auto &g2 : groups)
      if (g2.first == thread_key[s2]) {
        g2.second.push_back(s2);
        found = true;
      }
    if (!found)
      groups.push_back({thread_key[s2], std::vector<int>(1, s2)});
  }
  int recording = (int)groups.size();
  std::vector<std::vector<std::string>> pool_exp;
  for (auto &g2 : groups) {
    if (g2.second.size() > 1)
      sim_probe(PT_ID_RECYCLED);
    std::vector<std::string> exp;
    char want[16] = "";
    for (int s2 : g2.second) {
      int depth = 0, maxdepth = 0;
      for (auto &r : *recorded[s2]) {
        static const char *phn[] = {"B", "E", "i", "C"};
        const char *cat = r.cat >= 0 ? CATS[r.cat] : nullptr;
        bool has_cat = r.kind != C20_END && cat != nullptr;
        exp.push_back(evkey(phn[r.kind], r.name >= 0 ? NAMES[r.name] : "", has_cat ? cat : "", has_cat, (double)r.value, r.kind == C20_COUNTER));
        if (r.kind == C20_BEGIN)
          maxdepth = ++depth > maxdepth ? depth : maxdepth;
        if (r.kind == C20_END)
          depth--;
        any_event = true;
      }
      if (maxdepth >= 2)
        sim_probe(PT_NESTED_GE2);
      if (depth > 0)
        sim_probe(PT_OPEN_AT_SAVE);
      size_t n = recorded[s2]->size();
      if (n == 1)
        sim_probe(PT_ONE_EVENT);
      if (n == tplan.chunk)
        sim_probe(PT_EXACT_CHUNK);
      if (n > tplan.chunk)
        sim_probe(PT_CHUNK_CROSSED);
      if (tplan.named[s2])
        snprintf(want, sizeof want, "thr-%d", s2);
    }
    if (tplan.same_names) {
      pool_exp.push_back(exp);
      continue;
    }
    // find the file's tid for this group
    long ftid = -1;
    for (auto &kv : tname)
      if (want[0] ? kv.second == want : true)
        ftid = kv.first;
    if (ftid < 0) {
      sim_fail("C20:trace:thread-missing", "recording thread %s does not appear in the log", want);
      return;
    }
    const std::vector<std::string> &got = evs[ftid];
    if (got.size() != exp.size()) {
      sim_fail("C20:trace:event-count-differs", "thread %s (%zu recording threads with this thread id) recorded %zu events, the log holds %zu (chunk size %u)",
               want, g2.second.size(), exp.size(), got.size(), tplan.chunk);
      return;
    }
    for (size_t i = 0; i < exp.size(); i++)
      if (got[i] != exp[i]) {
        sim_fail("C20:trace:event-differs", "thread %s event %zu: recorded %s, log has %s", want, i, exp[i].c_str(), got[i].c_str());
        return;
      }
  }
  if (tplan.same_names) {
    // all threads carry the same name: the log must hold one entry per recording thread, and the entries' event sequences must be
    // the recorded sequences (in any order of threads)
    std::vector<std::vector<std::string>> pool_got;
    for (auto &kv : tname)
      if (kv.second == "worker")
        pool_got.push_back(evs[kv.first]);
    if (pool_got.size() != pool_exp.size()) {
      sim_fail("C20:trace:thread-missing", "%zu recording threads all named \"worker\", the log has %zu entries of that name", pool_exp.size(), pool_got.size());
      return;
    }
    std::sort(pool_exp.begin(), pool_exp.end());
    std::sort(pool_got.begin(), pool_got.end());
    if (pool_exp != pool_got) {
      sim_fail("C20:trace:event-differs", "%zu recording threads all named \"worker\": the per-thread event sequences in the log are not the recorded ones", pool_exp.size());
      return;
    }
    sim_probe(PT_SAME_NAMES);
  }
  if ((int)tname.size() != recording) {
    sim_fail("C20:trace:thread-count-differs", "%d thread ids recorded, the log names %zu", recording, tname.size());
    return;
  }
  if (recording >= 2)
    sim_probe(PT_MULTI_THREAD);
  if (!any_event)
    sim_probe(PT_EMPTY_LOG);
  if (!tplan.process_name)
    sim_probe(PT_NO_PROCESS_NAME);
}

int stuck(int deadlock, char *cls, size_t n)
{
  if (deadlock) {
    snprintf(cls, n, "C20:deadlock");
    return 1;
  }
  return 0;
}

void tdescribe(char *buf, size_t n)
{
  int k = snprintf(buf, n, "{\"api\": \"%s\", \"chunk\": %u, \"threads\": %d, \"process_name\": %d, \"thread0_records\": %d, \"one_after_another\": %d, \"names_from_pool_of_200\": %d, \"extra_saves\": %d, \"names_of_40000_to_100000_characters\": %d, \"global_cxx_locale_is_the_users\": %d, \"events_per_thread\": [",
                   tplan.global_api ? "free functions (global recorder)" : "private TraceRecorder", tplan.chunk, tplan.nthreads, tplan.process_name,
                   tplan.t0_records, tplan.sequential, tplan.many_names, tplan.extra_save, tplan.huge_names, tplan.cxx_locale);
  for (int t = 0; t < tplan.nthreads; t++)
    k += snprintf(buf + k, n - k, "%s\"%d bulk + %d scripted\"", t ? "," : "", tplan.bulk[t], tplan.nops[t]);
  snprintf(buf + k, n - k, "]}");
}

const SimScenario tscen = {"c20trace", "C20", LANE_DEBUG, treset, tplan_private, c20trace_run, tcheck, stuck, tdescribe, tfault_names, tprobe_names, 0, 0};
SimRegistrar treg(&tscen);
const SimScenario tgscen = {"c20traceg", "C20", LANE_DEBUG, treset, tplan_global, c20trace_run, tcheck, stuck, tdescribe, tfault_names, tprobe_names, 0, 1};
SimRegistrar tgreg(&tgscen);

// ---------------------------------------------------------------- images
C20IPlan iplans[3];
int nimages;
int images_sequential;
int decimal_comma;
char ipaths[3][280];
C20IPlan iplan;  // the image being checked
bool written;
const char *no_faults[] = {nullptr};
enum { PI_SINGLE_ROW = 0, PI_SINGLE_COL, PI_NONSQUARE, PI_WIDE, PI_CONCURRENT, PI_SEQUENTIAL, PI_DECIMAL_COMMA, PI_ROW_ABOVE_STACK };
const char *iprobe_names[] = {"single_row", "single_column", "non_square", "width_above_4000", "images_written_concurrently", "images_written_one_after_another", "process_locale_with_decimal_comma_adopted", "one_row_of_9MiB_or_more", nullptr};
const char *fmtname[] = {"PPM", "PGM", "PFM<float>", "PFM<vec3f>", "PFM<vec3fa>", "PFM<vec4f>"};

void ireset()
{
  memset(&iplan, 0, sizeof iplan);
  memset(iplans, 0, sizeof iplans);
  nimages = 1;
  written = false;
  mkdir("/verif/build/scratch", 0777);
  snprintf(g_path, sizeof g_path, "/verif/build/scratch/c20_%d.out", (int)getpid());
  for (int i = 0; i < 3; i++) {
    snprintf(ipaths[i], sizeof ipaths[i], "%s.%d", g_path, i);
    unlink(ipaths[i]);
  }
}
void one_image_plan(int tier, bool small);
void iplan_fn(int tier)
{
  // one image, or (1 run in 4) two or three images written concurrently by their own threads, often
  // by the same writer
  sim_set_step_cap(2000000);  // the writers' row buffer is a heap block since /repo bbff51b: every component copied is a step
  nimages = sim_plan(4) == 0 ? 2 + (int)sim_plan(2) : 1;
  int common = (int)sim_plan(6);
  bool same = sim_plan(3) != 0;
  for (int i = 0; i < nimages; i++) {
    one_image_plan(tier, nimages > 1);
    if (nimages > 1 && same)
      iplan.format = common;
    iplans[i] = iplan;
  }
  images_sequential = nimages > 1 && sim_plan(3) == 0;
  decimal_comma = sim_plan(4) == 0;
  if (nimages > 1)
    sim_probe(images_sequential ? PI_SEQUENTIAL : PI_CONCURRENT);
  // drawn last: one row larger than a thread's whole default stack (8 MiB on Linux, 512 KiB for secondary threads elsewhere)
  if (nimages == 1 && sim_plan(120) == 119) {
    static const int comps[] = {3, 3, 4};
    iplan.format = 3 + (int)sim_plan(3);  // the three multi-component PFM formats: fewest pixels for that many bytes
    iplan.w = (int)((9u << 20) / (4u * (unsigned)comps[iplan.format - 3])) + 1 + (int)sim_plan(1000);
    iplan.h = 1;
    iplans[0] = iplan;
    sim_probe(PI_ROW_ABOVE_STACK);
    sim_set_step_cap(60000000);  // every pixel access of the single thread counts as a step
  }
}
void one_image_plan(int tier, bool small)
{
  iplan.format = (int)sim_plan(6);
  int mx = tier ? 40 : 24;
  iplan.w = 1 + (int)sim_plan((uint32_t)mx);
  iplan.h = 1 + (int)sim_plan((uint32_t)mx);
  unsigned k = sim_plan(6);
  if (k == 0)
    iplan.w = 1;
  if (k == 1)
    iplan.h = 1;
  if (small) {
    iplan.w = 1 + (int)sim_plan(12);
    iplan.h = 1 + (int)sim_plan(6);
  } else if (sim_plan(14) == 0) {  // rows far wider than any fixed-size staging buffer
    iplan.w = 4000 + (int)sim_plan(5200);
    iplan.h = 1 + (int)sim_plan(2);
    sim_probe(PI_WIDE);
  }
  iplan.seed = (int)sim_plan(200);
}
inline unsigned char bytev(int x, int y, int c, int seed) { return (unsigned char)(x * 7 + y * 13 + c * 50 + seed); }
inline float floatv(int x, int y, int c, int seed) { return (float)(x + 100 * y + 10000 * c + seed) + 0.5f; }

void icheck_one(const char *path);
void icheck()
{
  if (!written) {
    sim_fail("C20:image:writer-did-not-return", "writer did not return");
    return;
  }
  for (int i = 0; i < nimages && !sim_failed(); i++) {
    iplan = iplans[i];
    icheck_one(ipaths[i]);
  }
}
void icheck_one(const char *path)
{
  if (iplan.h == 1)
    sim_probe(PI_SINGLE_ROW);
  if (iplan.w == 1)
    sim_probe(PI_SINGLE_COL);
  if (iplan.w != iplan.h)
    sim_probe(PI_NONSQUARE);
  std::string data;
  if (!read_file(path, data)) {
    sim_fail("C20:image:no-file", "no file written");
    return;
  }
  unlink(path);
  static const char *magic[] = {"P6", "P5", "Pf", "PF", "PF", "PF4"};
  static const int ncomp[] = {3, 1, 1, 3, 3, 4};
  bool bytefmt = iplan.format < 2;
  char hdr[64];
  int hl = snprintf(hdr, sizeof hdr, "%s\n%d %d\n%s\n", magic[iplan.format], iplan.w, iplan.h, bytefmt ? "255" : "-1.0");
  if (data.size() < (size_t)hl || memcmp(data.data(), hdr, (size_t)hl) != 0) {
    sim_fail("C20:image:bad-header", "%s %dx%d: header is not \"%s %d %d %s\"", fmtname[iplan.format], iplan.w, iplan.h, magic[iplan.format], iplan.w,
             iplan.h, bytefmt ? "255" : "-1.0");
    return;
  }
  int nc = ncomp[iplan.format];
  size_t csz = bytefmt ? 1 : 4;
  size_t want = (size_t)hl + (size_t)iplan.w * iplan.h * nc * csz + 1;
  if (data.size() != want) {
    sim_fail("C20:image:wrong-size", "%s %dx%d: file has %zu bytes, expected %zu", fmtname[iplan.format], iplan.w, iplan.h, data.size(), want);
    return;
  }
  const unsigned char *px = (const unsigned char *)data.data() + hl;
  for (int row = 0; row < iplan.h; row++) {
    int y = bytefmt ? iplan.h - 1 - row : row;  // PPM/PGM are written bottom-up
    for (int x = 0; x < iplan.w; x++)
      for (int c = 0; c < nc; c++) {
        size_t off = (((size_t)row * iplan.w + x) * nc + c) * csz;
        if (bytefmt) {
          int src_c = iplan.format == 1 ? 3 : c;  // PGM selects the fourth (alpha) channel
          unsigned char e = bytev(x, y, src_c, iplan.seed);
          if (px[off] != e) {
            sim_fail("C20:image:pixel-differs", "%s %dx%d: file row %d (image row %d) x %d channel %d = %d, input %d", fmtname[iplan.format], iplan.w,
                     iplan.h, row, y, x, c, px[off], e);
            return;
          }
        } else {
          float f;
          memcpy(&f, px + off, 4);
          float e = floatv(x, y, c, iplan.seed);
          if (!(f == e)) {
            sim_fail("C20:image:pixel-differs", "%s %dx%d: row %d x %d channel %d = %g, input %g", fmtname[iplan.format], iplan.w, iplan.h, row, x, c,
                     (double)f, (double)e);
            return;
          }
        }
      }
  }
  if (px[want - hl - 1] != '\n')
    sim_fail("C20:image:missing-trailing-newline", "file does not end in a newline");
}
void idescribe(char *buf, size_t n)
{
  int k = snprintf(buf, n, "{\"images\": [");
  for (int i = 0; i < nimages; i++)
    k += snprintf(buf + k, n - k, "%s{\"format\": \"%s\", \"width\": %d, \"height\": %d, \"pattern_seed\": %d}", i ? "," : "", fmtname[iplans[i].format],
                  iplans[i].w, iplans[i].h, iplans[i].seed);
  snprintf(buf + k, n - k, "], \"written_concurrently\": %d, \"written_one_after_another\": %d, \"decimal_comma_locale\": %d}", nimages > 1 && !images_sequential, images_sequential, decimal_comma);
}
const SimScenario iscen = {"c20img", "C20", LANE_DEBUG, ireset, iplan_fn, c20img_run, icheck, stuck, idescribe, no_faults, iprobe_names, 1, 0};
SimRegistrar ireg(&iscen);
}  // namespace

extern "C" {
const C20TPlan *c20t_plan() { return &tplan; }
const char *c20_name(int i) { return NAMES[i % (C20_NAMES + C20_HUGE_NAMES)]; }
const char *c20_cat(int i) { return CATS[i % 3]; }
const char *c20_path() { return g_path; }
void c20t_thread_begin(int slot, int named, unsigned long long key)
{
  sim_event(2000, (uint64_t)slot, (uint64_t)named);
  thread_began[slot] = true;
  thread_key[slot] = key;
  begin_order[slot] = ++begin_counter;
}
void c20t_recorded(int slot, int kind, int name, int cat, unsigned long long value)
{
  SimOracleScope os;
  sim_event(2001 + (uint32_t)kind, (uint64_t)slot << 16 | (uint64_t)(name & 0xff) << 8 | (uint64_t)(cat & 0xff), value);
  Rec r = {kind, name, cat, value};
  recorded[slot]->push_back(r);
}
void c20t_locale_result(int adopted)
{
  if (adopted)
    sim_probe(PT_CXX_LOCALE);
}
void c20t_saved()
{
  sim_event(2010, 0, 0);
  saved = true;
}
const C20IPlan *c20i_plan() { return &iplans[0]; }
int c20i_count() { return nimages; }
int c20i_one_after_another() { return images_sequential; }
int c20i_decimal_comma() { return decimal_comma; }
void c20i_locale_result(int adopted)
{
  if (adopted)
    sim_probe(PI_DECIMAL_COMMA);
}
const C20IPlan *c20i_plan_n(int i) { return &iplans[i]; }
const char *c20_path_n(int i) { return ipaths[i]; }
void c20i_written()
{
  sim_event(2020, 0, 0);
  written = true;
}
}
