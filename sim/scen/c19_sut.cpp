// C19 — observers and time stamps. Instrumented half.
#include <thread>
#include <vector>

#include "../rt/sim_api.h"
#include "c19.h"
#include "rkcommon/utility/Observer.h"
#include "rkcommon/utility/TimeStamp.h"

using rkcommon::utility::Observable;
using rkcommon::utility::Observer;
using rkcommon::utility::TimeStamp;

// operations carried out by code of another translation unit (c19b_sut.cpp): a program has more than one source file
extern "C" {
void c19b_fresh(TimeStamp *out);
void c19b_renew(TimeStamp *t);
void c19b_notify(Observable *o);
int c19b_poll(Observer *o);
Observer *c19b_new_observer(Observable *o);
}

namespace {

void stamp_ops(int tid, const C19Op *ops, int n)
{
  TimeStamp *st[C19_STAMPS] = {nullptr, nullptr, nullptr, nullptr};
  SimTag tag(SIM_TAG_SUT);
  for (int i = 0; i < n; i++) {
    const C19Op &op = ops[i];
    int a = op.a % C19_STAMPS, b = op.b % C19_STAMPS;
    switch (op.kind) {
    case C19_S_FRESH:
      delete st[a];
      if (i & 1) {  // created by code of the other source file
        st[a] = static_cast<TimeStamp *>(::operator new(sizeof(TimeStamp)));
        c19b_fresh(st[a]);
      } else
        st[a] = new TimeStamp();
      c19_stamp(tid, C19_S_FRESH, (size_t)*st[a], 0);
      break;
    case C19_S_RENEW:
      if (st[a]) {
        if (i & 1)
          c19b_renew(st[a]);
        else
          st[a]->renew();
        c19_stamp(tid, C19_S_RENEW, (size_t)*st[a], 0);
      }
      break;
    case C19_S_RENEW_MANY:  // a long run of stamps on one thread
      if (st[a])
        for (int k = 0; k < 20 + 10 * (int)op.b; k++) {
          st[a]->renew();
          c19_stamp(tid, C19_S_RENEW, (size_t)*st[a], 0);
        }
      break;
    case C19_S_COPY:
      if (st[b] && a != b) {
        delete st[a];
        st[a] = new TimeStamp(*st[b]);
        c19_stamp(tid, C19_S_COPY, (size_t)*st[a], (size_t)*st[b]);
      }
      break;
    case C19_S_MOVE:
      if (st[b] && a != b) {
        delete st[a];
        size_t src = (size_t)*st[b];
        st[a] = new TimeStamp(std::move(*st[b]));
        c19_stamp(tid, C19_S_MOVE, (size_t)*st[a], src);
      }
      break;
    case C19_S_ASSIGN:
      if (st[a] && st[b]) {
        *st[a] = *st[b];
        c19_stamp(tid, C19_S_ASSIGN, (size_t)*st[a], (size_t)*st[b]);
      }
      break;
    case C19_S_MOVE_ASSIGN:
      if (st[a] && st[b] && a != b) {
        size_t src = (size_t)*st[b];
        *st[a] = std::move(*st[b]);
        c19_stamp(tid, C19_S_MOVE_ASSIGN, (size_t)*st[a], src);
      }
      break;
    }
  }
  for (auto *s : st)
    delete s;
}

}  // namespace

// the process-wide stamp counter (a private static member), reached through its linker symbol
// (weak: a tree that keeps the counter elsewhere still links; the injection is then skipped)
extern char rk_timestamp_global asm("_ZN8rkcommon7utility9TimeStamp6globalE") __attribute__((weak));

extern "C" void c19_run()
{
  const C19Plan *p = c19_plan();
  if (p->fast_forward && &rk_timestamp_global) {
    // the state after 2^32-24 stamps have been handed out, without handing them out one by one
    if (sizeof(TimeStamp) == 8)
      *reinterpret_cast<volatile unsigned long long *>(&rk_timestamp_global) = (1ULL << 32) - 24;
    else if (sizeof(TimeStamp) == 4)
      *reinterpret_cast<volatile unsigned int *>(&rk_timestamp_global) = 0xffffffe8u;
  }
  std::vector<std::thread> ths;
  for (int t = 0; t < p->nthreads; t++)
    ths.emplace_back([=]() { stamp_ops(t + 1, p->ops[t], p->nops[t]); });
  Observable *oa[C19_MAXOBSERVABLES] = {nullptr, nullptr, nullptr};
  Observer *ob[C19_MAXOBSERVERS] = {nullptr};
  for (int i = 0; i < p->nobs_ops; i++) {
    if (p->bulk_n && i == p->bulk_at) {
      for (int j = 0; j < p->bulk_n; j++) {
        C19Op bop = {C19_NEW_OBSERVER, (uint8_t)(C19_REGULAR_OBSERVERS + j), (uint8_t)p->bulk_obs};
        if (!c19_obs_applicable(&bop))
          continue;
        {
          SimTag tag(SIM_TAG_SUT);
          ob[bop.a] = new Observer(*oa[bop.b]);
        }
        c19_obs_done(&bop, -1);
      }
    }
    const C19Op &op = p->obs_ops[i];
    if (!c19_obs_applicable(&op))
      continue;
    int a = op.a, b = op.b;
    int res = -1;
    auto apply = [&]() {
      SimTag tag(SIM_TAG_SUT);
      switch (op.kind) {
      case C19_NEW_OBSERVABLE: oa[a] = new Observable(); break;
      case C19_NEW_OBSERVER: ob[a] = (i % 3 == 1) ? c19b_new_observer(oa[b]) : new Observer(*oa[b]); break;
      case C19_NOTIFY:
        if (i % 3 == 2)
          c19b_notify(oa[a]);
        else
          oa[a]->notifyObservers();
        break;
      case C19_POLL: res = (i & 1) ? c19b_poll(ob[a]) : (ob[a]->wasNotified() ? 1 : 0); break;
      case C19_DEL_OBSERVER:
        delete ob[a];
        ob[a] = nullptr;
        break;
      case C19_DEL_OBSERVABLE:
        delete oa[a];
        oa[a] = nullptr;
        break;
      case C19_COPY_OBSERVER: ob[a] = new Observer(*ob[b]); break;      // e.g. the copy of an object that has an Observer member
      case C19_COPY_OBSERVABLE: oa[a] = new Observable(*oa[b]); break;  // ... or an Observable base / member
      case C19_ASSIGN_OBSERVER: *ob[a] = *ob[b]; break;
      case C19_ASSIGN_OBSERVABLE: *oa[a] = *oa[b]; break;
      }
    };
    if (i < 25 && (p->hop_mask >> i & 1)) {
      std::thread helper(apply);  // ordered before and after by start and join
      helper.join();
    } else {
      apply();
    }
    c19_obs_done(&op, res);
    if (p->t0_stamp_ops && (i & 1)) {
      C19Op sop[2] = {{C19_S_FRESH, 0, 0}, {C19_S_RENEW, 0, 0}};
      stamp_ops(0, sop, 2);
    }
  }
  // every observer of the bulk is polled once more before the teardown
  for (int j = 0; j < p->bulk_n; j++) {
    C19Op pop = {C19_POLL, (uint8_t)(C19_REGULAR_OBSERVERS + j), 0};
    if (!c19_obs_applicable(&pop))
      continue;
    int res;
    {
      SimTag tag(SIM_TAG_SUT);
      res = ob[pop.a]->wasNotified() ? 1 : 0;
    }
    c19_obs_done(&pop, res);
  }
  // tear down what is left, observers and observables in the order the plan left them
  for (int k = 0; k < C19_MAXOBSERVERS + C19_MAXOBSERVABLES; k++) {
    C19Op op;
    bool obs_first = p->t0_stamp_ops != 0;
    int idx = k;
    if (obs_first ? k < C19_MAXOBSERVERS : k >= C19_MAXOBSERVABLES) {
      op.kind = C19_DEL_OBSERVER;
      op.a = (uint8_t)(obs_first ? idx : idx - C19_MAXOBSERVABLES);
      if (p->bulk_n && (p->bulk_at & 1))  // the registry also shrinks from its other end
        op.a = (uint8_t)(C19_MAXOBSERVERS - 1 - op.a);
    } else {
      op.kind = C19_DEL_OBSERVABLE;
      op.a = (uint8_t)(obs_first ? idx - C19_MAXOBSERVERS : idx);
    }
    op.b = 0;
    if (!c19_obs_applicable(&op))
      continue;
    {
      SimTag tag(SIM_TAG_SUT);
      if (op.kind == C19_DEL_OBSERVER) {
        delete ob[op.a];
        ob[op.a] = nullptr;
      } else {
        delete oa[op.a];
        oa[op.a] = nullptr;
      }
    }
    c19_obs_done(&op, -1);
  }
  for (auto &t : ths)
    t.join();
}
