// C19 — observers and time stamps. Oracle half: reference model of pending notifications,
// uniqueness / monotonicity of stamp values.
#include <stdio.h>
#include <string.h>

#include <set>

#include "../rt/sim_api.h"
#include "c19.h"

namespace {
C19Plan plan;
struct M
{
  bool observable_alive[C19_MAXOBSERVABLES];
  bool observer_alive[C19_MAXOBSERVERS];
  int observer_of[C19_MAXOBSERVERS];   // observable index, -1 once the observable is gone
  bool pending[C19_MAXOBSERVERS];
  bool ambiguous[C19_MAXOBSERVERS];    // copied from an observer with a pending notification: the first poll may report it or not
  unsigned long long last_value[1 + C19_MAXTHREADS];
  bool have_last[1 + C19_MAXTHREADS];
} m;
std::set<unsigned long long> *fresh_values;

enum { P_POLL_TRUE = 0, P_POLL_FALSE, P_COALESCED, P_LATE_OBSERVER, P_OBSERVABLE_FIRST, P_OBSERVER_FIRST, P_POLL_ORPHAN, P_CONCURRENT_STAMPS, P_BULK, P_COPIED_OBSERVER, P_COPIED_OBSERVABLE, P_ASSIGNED, P_HOP };
const char *probe_names[] = {"poll_returned_true", "poll_returned_false", "repeated_notifications_between_polls", "observer_created_after_notification",
                             "observable_destroyed_before_its_observer", "observer_destroyed_before_its_observable", "poll_after_observable_destroyed",
                             "stamps_taken_by_two_or_more_threads", "observable_with_10_to_40_more_observers", "observer_created_as_a_copy", "observable_created_as_a_copy", "observer_or_observable_assigned", "observer_operations_spread_over_helper_threads", nullptr};
const char *no_faults[] = {nullptr};
int notify_count[C19_MAXOBSERVABLES];
int stamp_threads_seen;

void reset()
{
  memset(&plan, 0, sizeof plan);
  memset(&m, 0, sizeof m);
  memset(notify_count, 0, sizeof notify_count);
  stamp_threads_seen = 0;
  delete fresh_values;
  fresh_values = new std::set<unsigned long long>();
}

void do_plan(int tier)
{
  plan.nobs_ops = (int)sim_plan(tier ? 25 : 19);
  sim_set_tso(sim_plan(4) == 0);
  plan.hop_mask = sim_plan(3) == 0 ? sim_plan(1u << 16) | sim_plan(1u << 9) << 16 : 0;
  if (plan.hop_mask)
    sim_probe(P_HOP);
  plan.bulk_n = 0;
  if (plan.nobs_ops >= 4 && sim_plan(6) == 0) {
    // an observable with many observers (registries grow, reallocate, change representation)
    plan.bulk_n = 9 + (int)sim_plan(32);
    plan.bulk_at = 2 + (int)sim_plan((uint32_t)plan.nobs_ops - 2);
    plan.bulk_obs = (int)sim_plan(2);
    sim_probe(P_BULK);
  }
  for (int i = 0; i < plan.nobs_ops; i++) {
    static const uint8_t kinds[] = {C19_NEW_OBSERVABLE, C19_NEW_OBSERVER, C19_NEW_OBSERVER, C19_NOTIFY, C19_NOTIFY, C19_POLL, C19_POLL, C19_POLL,
                                    C19_DEL_OBSERVER, C19_DEL_OBSERVABLE, C19_COPY_OBSERVER, C19_COPY_OBSERVABLE, C19_ASSIGN_OBSERVER, C19_ASSIGN_OBSERVABLE};
    C19Op &op = plan.obs_ops[i];
    op.kind = kinds[sim_plan(sizeof kinds)];
    bool observer_op = op.kind == C19_NEW_OBSERVER || op.kind == C19_POLL || op.kind == C19_DEL_OBSERVER || op.kind == C19_COPY_OBSERVER || op.kind == C19_ASSIGN_OBSERVER;
    op.a = (uint8_t)sim_plan(observer_op ? C19_REGULAR_OBSERVERS + (uint32_t)plan.bulk_n : C19_MAXOBSERVABLES);
    op.b = (uint8_t)sim_plan(op.kind == C19_COPY_OBSERVER || op.kind == C19_ASSIGN_OBSERVER ? C19_REGULAR_OBSERVERS : C19_MAXOBSERVABLES);
  }
  // make sure there is something to observe early on
  if (plan.nobs_ops >= 2) {
    plan.obs_ops[0] = {C19_NEW_OBSERVABLE, 0, 0};
    plan.obs_ops[1] = {C19_NEW_OBSERVER, 0, 0};
  }
  plan.t0_stamp_ops = (int)sim_plan(2);
  plan.fast_forward = sim_plan(6) == 0;
  plan.nthreads = (int)sim_plan(tier ? C19_MAXTHREADS + 1 : 4);
  for (int t = 0; t < plan.nthreads; t++) {
    plan.nops[t] = 1 + (int)sim_plan(plan.nthreads > 3 ? 8 : C19_MAXOPS);
    for (int i = 0; i < plan.nops[t]; i++) {
      static const uint8_t sk[] = {C19_S_FRESH, C19_S_FRESH, C19_S_RENEW, C19_S_RENEW, C19_S_COPY, C19_S_MOVE, C19_S_ASSIGN, C19_S_MOVE_ASSIGN,
                                   C19_S_RENEW_MANY};
      plan.ops[t][i].kind = sk[sim_plan(sizeof sk)];
      plan.ops[t][i].a = (uint8_t)sim_plan(C19_STAMPS);
      plan.ops[t][i].b = (uint8_t)sim_plan(C19_STAMPS);
      if (plan.ops[t][i].kind == C19_S_RENEW_MANY)
        plan.ops[t][i].b = (uint8_t)sim_plan(8);  // 20..90 stamps
    }
  }
  // drawn last: clock readings taken by different threads may tie (the shipped stamps do not read a clock at all)
  sim_set_clock_ties(sim_plan(3) == 2);
}
void check()
{
  if (stamp_threads_seen >= 2)
    sim_probe(P_CONCURRENT_STAMPS);
}
int stuck(int deadlock, char *cls, size_t n)
{
  if (deadlock) {
    snprintf(cls, n, "C19:deadlock");
    return 1;
  }
  return 0;
}
void describe(char *buf, size_t n)
{
  static const char *on[] = {"new-observable", "new-observer", "notify", "poll", "del-observer", "del-observable", "copy-observer", "copy-observable", "assign-observer", "assign-observable"};
  int k = snprintf(buf, n, "{\"stamp_threads\": %d, \"thread0_stamps\": %d, \"operations_on_helper_threads_mask\": %u, \"observer_history\": [", plan.nthreads, plan.t0_stamp_ops, plan.hop_mask);
  for (int i = 0; i < plan.nobs_ops && k < (int)n - 80; i++)
  {
    char from[24] = "";
    if (plan.obs_ops[i].kind == C19_NEW_OBSERVER)
      snprintf(from, sizeof from, " on %d", plan.obs_ops[i].b);
    else if (plan.obs_ops[i].kind >= C19_COPY_OBSERVER)
      snprintf(from, sizeof from, " from %d", plan.obs_ops[i].b);
    k += snprintf(buf + k, n - k, "%s\"%s %d%s\"", i ? "," : "", on[plan.obs_ops[i].kind], plan.obs_ops[i].a, from);
  }
  snprintf(buf + k, n - k, "]}");
}
const SimScenario scen = {"c19", "C19", LANE_DEBUG, reset, do_plan, c19_run, check, stuck, describe, no_faults, probe_names, 0};
SimRegistrar reg(&scen);
}  // namespace

extern "C" {
const C19Plan *c19_plan() { return &plan; }

void c19_stamp(int tid, int kind, unsigned long long value, unsigned long long src)
{
  SimOracleScope os;
  sim_event(190 + (uint32_t)kind, value, (uint64_t)tid);
  if (!(stamp_threads_seen & (1 << tid)))
    stamp_threads_seen |= 1 << tid;
  if (kind == C19_S_FRESH || kind == C19_S_RENEW) {
    if (!fresh_values->insert(value).second)
      sim_fail("C19:stamp-value-not-unique", "thread %d obtained time stamp value %llu which was handed out before", tid, value);
    if (m.have_last[tid] && value <= m.last_value[tid])
      sim_fail("C19:stamp-not-increasing", "thread %d obtained value %llu after value %llu", tid, value, m.last_value[tid]);
    m.last_value[tid] = value;
    m.have_last[tid] = true;
  } else {
    if (value != src)
      sim_fail("C19:copy-differs-from-source", "copied/moved/assigned stamp has value %llu, its source %llu", value, src);
  }
}

int c19_obs_applicable(const C19Op *op)
{
  switch (op->kind) {
  case C19_NEW_OBSERVABLE: return !m.observable_alive[op->a];
  case C19_NEW_OBSERVER: return !m.observer_alive[op->a] && m.observable_alive[op->b];
  case C19_NOTIFY: return m.observable_alive[op->a];
  case C19_POLL: return m.observer_alive[op->a];
  case C19_DEL_OBSERVER: return m.observer_alive[op->a];
  case C19_DEL_OBSERVABLE: return m.observable_alive[op->a];
  case C19_COPY_OBSERVER: return !m.observer_alive[op->a] && m.observer_alive[op->b];
  case C19_COPY_OBSERVABLE: return !m.observable_alive[op->a] && m.observable_alive[op->b];
  case C19_ASSIGN_OBSERVER: return m.observer_alive[op->a] && m.observer_alive[op->b];
  case C19_ASSIGN_OBSERVABLE: return m.observable_alive[op->a] && m.observable_alive[op->b];
  }
  return 0;
}

void c19_obs_done(const C19Op *op, int res)
{
  sim_event(180 + op->kind, (uint64_t)op->a << 8 | op->b, (uint64_t)(unsigned)res);
  switch (op->kind) {
  case C19_NEW_OBSERVABLE:
    m.observable_alive[op->a] = true;
    notify_count[op->a] = 0;
    break;
  case C19_NEW_OBSERVER:
    m.observer_alive[op->a] = true;
    m.observer_of[op->a] = op->b;
    m.pending[op->a] = false;
    m.ambiguous[op->a] = false;
    if (notify_count[op->b])
      sim_probe(P_LATE_OBSERVER);
    break;
  case C19_NOTIFY:
    notify_count[op->a]++;
    for (int j = 0; j < C19_MAXOBSERVERS; j++)
      if (m.observer_alive[j] && m.observer_of[j] == op->a) {
        if (m.pending[j])
          sim_probe(P_COALESCED);
        m.pending[j] = true;
      }
    break;
  case C19_COPY_OBSERVER:
    // a new observer of the same observable; what its source had pending may or may not be carried over
    m.observer_alive[op->a] = true;
    m.observer_of[op->a] = m.observer_of[op->b];
    m.pending[op->a] = false;
    m.ambiguous[op->a] = m.observer_of[op->b] >= 0 && (m.pending[op->b] || m.ambiguous[op->b]);
    sim_probe(P_COPIED_OBSERVER);
    break;
  case C19_ASSIGN_OBSERVER:
    // the observer now looks at what its source looks at; a notification pending on either side may or may not show once
    if (op->a != op->b) {
      bool amb = (m.observer_of[op->b] >= 0 && (m.pending[op->b] || m.ambiguous[op->b]));
      m.observer_of[op->a] = m.observer_of[op->b];
      m.pending[op->a] = false;
      m.ambiguous[op->a] = amb;
    }
    sim_probe(P_ASSIGNED);
    break;
  case C19_ASSIGN_OBSERVABLE:
    // observers stay with the instance they were created on; whether the assigned-to instance takes over the
    // "has notified" state of its source is left open: its observers' next poll may go either way
    if (op->a != op->b)
      for (int j = 0; j < C19_MAXOBSERVERS; j++)
        if (m.observer_alive[j] && m.observer_of[j] == op->a && !m.pending[j])
          m.ambiguous[j] = true;
    sim_probe(P_ASSIGNED);
    break;
  case C19_COPY_OBSERVABLE:
    // a new observable: the observers of the source keep observing the source
    m.observable_alive[op->a] = true;
    notify_count[op->a] = 0;
    sim_probe(P_COPIED_OBSERVABLE);
    break;
  case C19_POLL: {
    if (m.ambiguous[op->a] && !m.pending[op->a] && m.observer_of[op->a] >= 0) {
      m.ambiguous[op->a] = false;
      sim_probe(res ? P_POLL_TRUE : P_POLL_FALSE);
      break;
    }
    m.ambiguous[op->a] = false;
    bool exp = m.observer_of[op->a] >= 0 && m.pending[op->a];
    if (m.observer_of[op->a] < 0)
      sim_probe(P_POLL_ORPHAN);
    sim_probe(res ? P_POLL_TRUE : P_POLL_FALSE);
    if ((res != 0) != exp)
      sim_fail("C19:wasNotified-wrong", "observer %d: wasNotified() returned %d, the reference model says %d (observable %d)", op->a, res, exp ? 1 : 0,
               m.observer_of[op->a]);
    m.pending[op->a] = false;
    break;
  }
  case C19_DEL_OBSERVER:
    if (m.observer_of[op->a] >= 0)
      sim_probe(P_OBSERVER_FIRST);
    m.observer_alive[op->a] = false;
    break;
  case C19_DEL_OBSERVABLE:
    m.observable_alive[op->a] = false;
    for (int j = 0; j < C19_MAXOBSERVERS; j++)
      if (m.observer_alive[j] && m.observer_of[j] == op->a) {
        m.observer_of[j] = -1;
        m.pending[j] = false;
        sim_probe(P_OBSERVABLE_FIRST);
      }
    break;
  }
}
}
