// C19 — a second translation unit of the instrumented half: a program consists of several source files, and what is inline
// in a header (stamp creation, renew, notify, poll) is compiled into each of them.
#include <new>

#include "../rt/sim_api.h"
#include "rkcommon/utility/Observer.h"
#include "rkcommon/utility/TimeStamp.h"

using rkcommon::utility::Observable;
using rkcommon::utility::Observer;
using rkcommon::utility::TimeStamp;

extern "C" {
void c19b_fresh(TimeStamp *out) { new (out) TimeStamp(); }
void c19b_renew(TimeStamp *t) { t->renew(); }
void c19b_notify(Observable *o) { o->notifyObservers(); }
int c19b_poll(Observer *o) { return o->wasNotified() ? 1 : 0; }
Observer *c19b_new_observer(Observable *o) { return new Observer(*o); }
}
