// C12 — hand-off containers. Oracle half: plans, linearizability checker, value-order oracle.
#include <stdio.h>
#include <string.h>

#include <map>
#include <set>
#include <string>
#include <vector>

#include "../rt/sim_api.h"
#include "c12.h"

namespace {

// ============================ TransactionalBuffer =============================================
C12BufPlan bplan;
struct Op
{
  int kind;
  uint32_t value;           // push: the value
  uint64_t inv, ret;        // global sequence numbers
  std::vector<uint32_t> out;  // consume result
  uint64_t scalar;          // size / empty result
  int tid;
  bool done;
};
std::vector<Op> *ops;        // allocated on the real heap (oracle scope)
bool final_seen;
std::vector<uint32_t> *final_vals;

enum { PB_CONSUME_NONEMPTY = 0, PB_CONSUME_DURING_PUSH, PB_BATCHES_GE2, PB_SIZE_NONZERO, PB_OVERLAP, PB_LIN_BUDGET, PB_BULK, PB_BIG_ELEMENTS };
const char *bprobe_names[] = {"consume_returned_items", "consume_overlapped_a_push", "items_split_over_two_or_more_batches",
                              "size_observed_nonzero", "operations_overlapped", "linearizability_search_budget_exhausted_history_unjudged", "producer_with_100_to_3000_elements", "elements_of_48KiB", nullptr};
const char *no_faults[] = {nullptr};

void breset()
{
  memset(&bplan, 0, sizeof bplan);
  delete ops;
  ops = new std::vector<Op>();
  delete final_vals;
  final_vals = new std::vector<uint32_t>();
  final_seen = false;
}

void bplan_fn(int tier)
{
  bplan.payload = (int)sim_plan(2);
  sim_set_tso(sim_plan(4) == 0);
  int maxp = tier ? 8 : 4;
  bplan.nproducers = 1 + (int)sim_plan((uint32_t)maxp);
  int budget = 20;  // history length cap for the linearizability checker (<= 24 with the final consume)
  bplan.consumer_thread = (int)sim_plan(2);
  bplan.nconsumer_ops = (int)sim_plan(7);
  budget -= bplan.nconsumer_ops;
  for (int i = 0; i < bplan.nconsumer_ops; i++) {
    unsigned k = sim_plan(4);
    bplan.consumer_ops[i] = k == 0 || k == 3 ? C12_CONSUME : (k == 1 ? C12_SIZE : C12_EMPTY);
  }
  for (int pi = 0; pi < bplan.nproducers; pi++) {
    int mx = budget / (bplan.nproducers - pi);
    if (mx > 4)
      mx = 4;
    if (mx < 1)
      mx = 1;
    bplan.nitems[pi] = 1 + (int)sim_plan((uint32_t)mx);
    budget -= bplan.nitems[pi];
    bplan.move_mask[pi] = (int)sim_plan(16);
    bplan.work[pi] = (int)sim_plan(3);
  }
  if (sim_plan(12) == 0) {
    // one producer hands over hundreds of elements (growth of the buffer, long batches); such a history is judged
    // by conservation and order only, it is far too long for the linearizability search
    bplan.nitems[sim_plan((uint32_t)bplan.nproducers)] = 100 + (int)sim_plan(tier ? 2900 : 900);
    sim_probe(PB_BULK);
    if (sim_plan(2)) {
      // ... of 48 KiB each: the buffer holds tens of megabytes
      bplan.payload = 2;
      for (int pi = 0; pi < bplan.nproducers; pi++)
        if (bplan.nitems[pi] >= 100)
          bplan.nitems[pi] = 100 + bplan.nitems[pi] % 500;
      sim_probe(PB_BIG_ELEMENTS);
    }
  }
}

// linearizability: DFS over minimal operations with memoisation on (done-set, pending list)
struct Lin
{
  const std::vector<Op> &o;
  std::set<std::pair<uint32_t, std::vector<uint32_t>>> seen;
  size_t nodes = 0;
  bool gave_up = false;  // search budget exhausted: the history stays unjudged (never an alarm)
  explicit Lin(const std::vector<Op> &ops_) : o(ops_) {}
  bool go(uint32_t done, std::vector<uint32_t> &pending)
  {
    size_t n = o.size();
    if (++nodes > 400000) {
      gave_up = true;
      return true;
    }
    if (done == (n == 32 ? 0xffffffffu : ((1u << n) - 1)))
      return true;
    if (!seen.insert({done, pending}).second)
      return false;
    // earliest return among unlinearised ops
    uint64_t minret = ~0ULL;
    for (size_t i = 0; i < n; i++)
      if (!(done >> i & 1) && o[i].ret < minret)
        minret = o[i].ret;
    for (size_t i = 0; i < n; i++) {
      if (done >> i & 1)
        continue;
      if (o[i].inv > minret)
        continue;  // some other op finished before this one began
      const Op &op = o[i];
      if (op.kind == C12_PUSH_COPY || op.kind == C12_PUSH_MOVE) {
        pending.push_back(op.value);
        if (go(done | 1u << i, pending))
          return true;
        pending.pop_back();
      } else if (op.kind == C12_CONSUME) {
        if (op.out == pending) {
          std::vector<uint32_t> empty;
          if (go(done | 1u << i, empty))
            return true;
        }
      } else if (op.kind == C12_SIZE) {
        if (op.scalar == pending.size() && go(done | 1u << i, pending))
          return true;
      } else {
        if ((op.scalar != 0) == pending.empty() && go(done | 1u << i, pending))
          return true;
      }
    }
    return false;
  }
};

void bcheck()
{
  SimOracleScope os;
  std::vector<Op> &o = *ops;
  for (auto &op : o)
    if (!op.done) {
      sim_fail("C12:buffer:operation-never-returned", "operation kind %d did not return", op.kind);
      return;
    }
  if (!final_seen) {
    sim_fail("C12:buffer:no-final-consume", "final consume missing");
    return;
  }
  // corollaries first (cheaper, clearer messages): exactly once, producer order, nothing invented
  std::map<uint32_t, int> count;
  std::vector<std::vector<uint32_t>> batches;
  for (auto &op : o)
    if (op.kind == C12_CONSUME)
      batches.push_back(op.out);
  batches.push_back(*final_vals);
  int nonempty_batches = 0;
  std::map<int, uint32_t> last_seq;
  for (auto &b : batches) {
    if (!b.empty())
      nonempty_batches++;
    for (uint32_t v : b) {
      count[v]++;
      int prod = (int)(v >> 16), seq = (int)(v & 0xffff);
      if (prod < 1 || prod > bplan.nproducers || seq < 1 || seq > bplan.nitems[prod - 1]) {
        sim_fail("C12:buffer:invented-or-corrupt-element", "consumed element %#x was never pushed", v);
        return;
      }
      if (last_seq.count(prod) && last_seq[prod] >= (uint32_t)seq) {
        sim_fail("C12:buffer:producer-order-violated", "producer %d: element %d consumed after element %u", prod, seq, last_seq[prod]);
        return;
      }
      last_seq[prod] = (uint32_t)seq;
    }
  }
  if (nonempty_batches >= 2)
    sim_probe(PB_BATCHES_GE2);
  for (int pi = 0; pi < bplan.nproducers; pi++)
    for (int k = 1; k <= bplan.nitems[pi]; k++) {
      uint32_t v = (uint32_t)((pi + 1) << 16 | k);
      int c = count.count(v) ? count[v] : 0;
      if (c == 0) {
        sim_fail("C12:buffer:element-lost", "element %#x pushed but never consumed", v);
        return;
      }
      if (c > 1) {
        sim_fail("C12:buffer:element-duplicated", "element %#x consumed %d times", v, c);
        return;
      }
    }
  // full linearizability incl. size()/empty() (no torn state)
  std::vector<Op> all = o;
  Op fin;
  fin.kind = C12_CONSUME;
  fin.value = 0;
  fin.inv = fin.ret = ~0ULL - 1;
  fin.out = *final_vals;
  fin.scalar = 0;
  fin.tid = 0;
  fin.done = true;
  all.push_back(fin);
  if (all.size() > 26) {
    sim_note("history of %zu operations not checked for linearizability (cap 26)", all.size());
    return;
  }
  Lin lin(all);
  std::vector<uint32_t> pending;
  bool ok = lin.go(0, pending);
  if (lin.gave_up) {
    sim_probe(PB_LIN_BUDGET);
    sim_note("linearizability search gave up after %zu nodes (history of %zu operations)", lin.nodes, all.size());
    return;
  }
  if (!ok)
    sim_fail("C12:buffer:not-linearizable", "history of %zu operations has no linearization against the sequential buffer model", all.size());
}

int stuck(int deadlock, char *cls, size_t n)
{
  if (deadlock) {
    snprintf(cls, n, "C12:deadlock");
    return 1;
  }
  return 0;
}

void bdescribe(char *buf, size_t n)
{
  int k = snprintf(buf, n, "{\"payload\": \"%s\", \"producers\": %d, \"items\": [", bplan.payload == 2 ? "48 KiB struct" : (bplan.payload ? "std::string" : "int"), bplan.nproducers);
  for (int i = 0; i < bplan.nproducers; i++)
    k += snprintf(buf + k, n - k, "%s%d", i ? "," : "", bplan.nitems[i]);
  k += snprintf(buf + k, n - k, "], \"consumer_is_thread\": %d, \"consumer_ops\": [", bplan.consumer_thread);
  static const char *nm[] = {"push", "push&&", "consume", "size", "empty"};
  for (int i = 0; i < bplan.nconsumer_ops; i++)
    k += snprintf(buf + k, n - k, "%s\"%s\"", i ? "," : "", nm[bplan.consumer_ops[i]]);
  snprintf(buf + k, n - k, "]}");
}

const SimScenario bscen = {"c12buf", "C12", LANE_DEBUG, breset, bplan_fn, c12buf_run, bcheck, stuck, bdescribe, no_faults, bprobe_names, 0};
SimRegistrar breg(&bscen);

// ============================ TransactionalValue ==============================================
C12ValPlan vplan;
struct VState
{
  int assigned_begun;   // highest index whose assignment has been invoked
  int assigned_done;    // highest index whose assignment has returned
  int last_seen;        // highest index observed by the consumer
  bool joined;
  bool final_seen;
} vs;
enum { PV_UPDATE_TRUE = 0, PV_UPDATE_FALSE, PV_SKIPPED_VALUE, PV_UPDATE_DURING_ASSIGN, PV_EMPTY_VALUE };
const char *vprobe_names[] = {"update_returned_true", "update_returned_false", "consumer_skipped_an_intermediate_value",
                              "update_overlapped_assignment", "an_assignment_of_zero_or_the_empty_string", nullptr};

void vreset()
{
  memset(&vplan, 0, sizeof vplan);
  memset(&vs, 0, sizeof vs);
}
void vplan_fn(int tier)
{
  vplan.payload = (int)sim_plan(2);
  sim_set_tso(sim_plan(4) == 0);
  vplan.nassign = (int)sim_plan(tier ? 9 : 6);
  vplan.work = (int)sim_plan(4);
  vplan.nops = (int)sim_plan(tier ? 14 : 10);
  for (int i = 0; i < vplan.nops; i++) {
    unsigned k = sim_plan(5);
    vplan.ops[i] = k < 3 ? C12V_UPDATE : (k == 3 ? C12V_GET : C12V_REF);
  }
  // one assignment may write the payload type's natural "nothing" value (0, the empty string): still unique in the run
  vplan.empty_at = -1;
  if (vplan.nassign > 0 && sim_plan(3) == 0) {
    vplan.empty_at = sim_plan(2) ? vplan.nassign : 1 + (int)sim_plan((uint32_t)vplan.nassign);
    sim_probe(PV_EMPTY_VALUE);
  }
}
void vcheck()
{
  if (!vs.final_seen)
    sim_fail("C12:value:no-final-observation", "final observation missing");
}
void vdescribe(char *buf, size_t n)
{
  int k = snprintf(buf, n, "{\"payload\": \"%s\", \"assignments\": %d, \"producer_work\": %d, \"assignment_of_zero_or_empty\": %d, \"consumer_ops\": [",
                   vplan.payload ? "std::string" : "int", vplan.nassign, vplan.work, vplan.empty_at);
  static const char *nm[] = {"update", "get", "ref"};
  for (int i = 0; i < vplan.nops; i++)
    k += snprintf(buf + k, n - k, "%s\"%s\"", i ? "," : "", nm[vplan.ops[i]]);
  snprintf(buf + k, n - k, "]}");
}
const SimScenario vscen = {"c12val", "C12", LANE_DEBUG, vreset, vplan_fn, c12val_run, vcheck, stuck, vdescribe, no_faults, vprobe_names, 0};
SimRegistrar vreg(&vscen);

}  // namespace

extern "C" {
const C12BufPlan *c12buf_plan() { return &bplan; }

int c12_op_begin(int kind, uint32_t value)
{
  SimOracleScope os;
  Op op;
  op.kind = kind;
  op.value = value;
  op.inv = sim_event(100 + (uint32_t)kind, value, 0);
  op.ret = ~0ULL;
  op.scalar = 0;
  op.tid = sim_self();
  op.done = false;
  for (auto &x : *ops)
    if (!x.done) {
      sim_probe(PB_OVERLAP);
      if (kind == C12_CONSUME && (x.kind == C12_PUSH_COPY || x.kind == C12_PUSH_MOVE))
        sim_probe(PB_CONSUME_DURING_PUSH);
    }
  ops->push_back(op);
  return (int)ops->size() - 1;
}

void c12_op_end(int id, const uint32_t *vals, uint32_t n, uint64_t scalar)
{
  SimOracleScope os;
  Op &op = (*ops)[(size_t)id];
  op.out.assign(vals, vals + n);
  op.scalar = scalar;
  uint64_t h = 0;
  for (uint32_t i = 0; i < n; i++)
    h = h * 1000003 + vals[i];
  op.ret = sim_event(200 + (uint32_t)op.kind, h, scalar);
  op.done = true;
  if (op.kind == C12_CONSUME && n)
    sim_probe(PB_CONSUME_NONEMPTY);
  if (op.kind == C12_SIZE && scalar)
    sim_probe(PB_SIZE_NONZERO);
}

void c12_final(const uint32_t *vals, uint32_t n)
{
  SimOracleScope os;
  final_vals->assign(vals, vals + n);
  final_seen = true;
  sim_event(300, n, 0);
}

const C12ValPlan *c12val_plan() { return &vplan; }

void c12v_assign_begin(int idx)
{
  sim_event(400, (uint64_t)idx, 0);
  vs.assigned_begun = idx;
}
void c12v_assign_end(int idx)
{
  sim_event(401, (uint64_t)idx, 0);
  vs.assigned_done = idx;
}

void c12v_observe(int kind, int before, int after, int ret)
{
  sim_event(410 + (uint32_t)kind, (uint64_t)(uint32_t)after, (uint64_t)(uint32_t)ret);
  // every value the consumer sees was assigned by the producer (or is the initial one)
  if (after < 0 || after > vs.assigned_begun)
    sim_fail("C12:value:unassigned-value-observed", "consumer observed value index %d, producer has begun assigning up to %d", after, vs.assigned_begun);
  if (before < 0 || before > vs.assigned_begun)
    sim_fail("C12:value:unassigned-value-observed", "consumer observed value index %d, producer has begun assigning up to %d", before, vs.assigned_begun);
  // values are seen in assignment order
  if (before < vs.last_seen || after < before)
    sim_fail("C12:value:order-violated", "consumer observed index %d after having seen %d", after < before ? after : before,
             after < before ? before : vs.last_seen);
  if (kind == C12V_UPDATE) {
    // update() returns true exactly when it installed a newer value
    if (ret == 1 && after <= before)
      sim_fail("C12:value:update-true-without-newer-value", "update() returned true but the value went from index %d to %d", before, after);
    if (ret == 0 && after != before)
      sim_fail("C12:value:update-false-but-value-changed", "update() returned false but the value went from index %d to %d", before, after);
    sim_probe(ret ? PV_UPDATE_TRUE : PV_UPDATE_FALSE);
    if (after > before + 1)
      sim_probe(PV_SKIPPED_VALUE);
    if (vs.assigned_begun > vs.assigned_done)
      sim_probe(PV_UPDATE_DURING_ASSIGN);
    // once the producer has stopped the consumer obtains the last value
    if (vs.joined && after != vplan.nassign)
      sim_fail("C12:value:last-value-not-obtained", "producer stopped after assigning index %d, update() left index %d", vplan.nassign, after);
    if (vs.joined && vs.final_seen && ret != 0)
      sim_fail("C12:value:update-true-without-newer-value", "second update() after the producer stopped returned true");
  } else if (after != before) {
    sim_fail("C12:value:get-changed-value", "get()/ref() changed the current value from index %d to %d", before, after);
  }
  vs.last_seen = after;
}

void c12v_producer_joined()
{
  sim_event(420, 0, 0);
  vs.joined = true;
}
void c12v_final(int idx)
{
  sim_event(421, (uint64_t)(uint32_t)idx, 0);
  vs.final_seen = true;
  if (idx != vplan.nassign)
    sim_fail("C12:value:last-value-not-obtained", "final value index %d, expected %d", idx, vplan.nassign);
}
}
