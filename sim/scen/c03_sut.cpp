// C03 — AsyncLoop start/stop/destroy protocol. Instrumented half.
#include "rkcommon/tasking/AsyncLoop.h"
#include "rkcommon/tasking/schedule.h"
#include "../rt/sim_api.h"
#include "c03.h"
#include <vector>

using rkcommon::tasking::AsyncLoop;

extern "C" void c03_run()
{
  const C03Plan *p = c03_plan();
  if (p->init_threads > 0) {
    SimTag t(SIM_TAG_INFRA);
    rkcommon::tasking::initTaskingSystem(p->init_threads);
  }
  if (p->busy_workers) {
    // other long-running work (say, other task-launched loops) already holds every tasking thread
    SimTag t(SIM_TAG_SUT);
    for (int i = 0; i < p->init_threads; i++)
      rkcommon::tasking::schedule([]() { c03_blocker(); });
    c03_wait_blockers(p->init_threads - 1);
  }
  int cost = p->body_cost;
  // an application with many AsyncLoops: the others exist (idle) while the scripted one is driven
  std::vector<AsyncLoop *> crowd;
  if (p->crowd) {
    SimTag t(SIM_TAG_SUT);
    for (int i = 0; i < p->crowd; i++) {
      crowd.push_back(new AsyncLoop([]() { c03_crowd_body(); }, AsyncLoop::THREAD));
      if (i % 5 == 4) {  // some have been used before
        crowd.back()->start();
        crowd.back()->stop();
      }
    }
  }
  AsyncLoop *loop;
  {
    SimTag t(SIM_TAG_SUT);
    c03_ev(C03_CTOR_INVOKE);
    loop = new AsyncLoop(
        [cost]() {
          c03_body_enter();
          sim_work((uint32_t)cost);
          c03_body_exit();
        },
        (AsyncLoop::LaunchMethod)p->launch);
    c03_ev(C03_CTOR_RETURN);
  }
  sim_phase(1);
  auto do_op = [loop](const C03Op &op) {
    switch (op.kind) {
    case C03_OP_START:
      c03_ev(C03_START_INVOKE);
      loop->start();
      c03_ev(C03_START_RETURN);
      break;
    case C03_OP_STOP:
      c03_ev(C03_STOP_INVOKE);
      loop->stop();
      c03_ev(C03_STOP_RETURN);
      break;
    case C03_OP_IDLE:
      for (int k = 0; k < op.arg; k++)
        sim_yield();
      break;
    case C03_OP_EXPECT:
      c03_expect_progress();
      break;
    }
  };
  if (p->ctrl_in_loop) {
    // the controller is the loop thread of a second AsyncLoop: each invocation of its body issues the
    // next operation of the script
    AsyncLoop *ctrl;
    {
      SimTag t(SIM_TAG_SUT);
      ctrl = new AsyncLoop(
          [p, do_op]() {
            int i = c03_ctrl_next();
            if (i >= 0)
              do_op(p->ops[i]);
            else
              sim_yield();
          },
          AsyncLoop::THREAD);
      ctrl->start();
    }
    c03_ctrl_wait_done();
    {
      SimTag t(SIM_TAG_SUT);
      ctrl->stop();
      delete ctrl;
    }
  } else
  for (int i = 0; i < p->nops; i++) {
    const C03Op &op = p->ops[i];
    switch (op.kind) {
    case C03_OP_START:
      c03_ev(C03_START_INVOKE);
      loop->start();
      c03_ev(C03_START_RETURN);
      break;
    case C03_OP_STOP:
      c03_ev(C03_STOP_INVOKE);
      loop->stop();
      c03_ev(C03_STOP_RETURN);
      break;
    case C03_OP_IDLE:
      for (int k = 0; k < op.arg; k++)
        sim_yield();
      break;
    case C03_OP_EXPECT:
      c03_expect_progress();
      break;
    }
  }
  sim_phase(2);
  if (p->busy_workers)
    sim_set_fair(1);  // no faults from here on: the destructor has to return within the run's step budget
  {
    SimTag t(SIM_TAG_SUT);
    c03_ev(C03_DTOR_INVOKE);
    delete loop;
    c03_ev(C03_DTOR_RETURN);
    for (AsyncLoop *l : crowd)
      delete l;  // every one of these destructors has to return as well
  }
  if (p->busy_workers) {
    sim_set_fair(0);
    c03_release_blockers();
  }
  sim_phase(3);
  if (p->init_threads > 0) {
    // tears the previous tasking system down: returns only after its worker threads have
    // finished whatever task they were running (the loop closure of a TASK-launched loop)
    SimTag t(SIM_TAG_INFRA);
    rkcommon::tasking::initTaskingSystem(1);
  }
  sim_phase(4);
}
