#pragma once
#include <stddef.h>
#include <stdint.h>
// C14 — aligned allocation. Shared between the halves.
enum { A14_ALLOC = 0, A14_FREE, A14_VERIFY };
enum { A14_V_PUSH = 0, A14_V_RESIZE, A14_V_RESIZE_VAL, A14_V_RESERVE, A14_V_SHRINK, A14_V_ASSIGN, A14_V_INSERT, A14_V_ERASE, A14_V_SWAP, A14_V_CLEAR,
       A14_V_POP, A14_V_COPY, A14_V_NOPS };
struct A14Op
{
  int kind;
  int slot;
  int size_idx;
  int align_log2;
  int n;       // vector ops: count / position
  int val;
};
enum { A14_MAXOPS = 18, A14_SLOTS = 8 };
struct A14Plan
{
  int mode;        // 0 raw alloc/free history, 1 AlignedVector history, 2 allocator edge requests
  int elem;        // vector element size selector: 0..4 -> 1,4,12,16,64 bytes; 5: struct with a std::string; 6: value class constructible from a list of itself
  int nops;
  A14Op ops[A14_MAXOPS];
  long fail_at;    // nth allocation inside the fault window fails (-1: none)
};
extern "C" {
const A14Plan *a14_plan();
size_t a14_size(int idx);
void a14_fail(const char *cls, const char *msg);
void a14_probe(int id);
void a14_done(unsigned long allocs_seen, unsigned long failures_injected);
void a14_run();
}
