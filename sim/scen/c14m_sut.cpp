// C14 — aligned allocation from several threads. Instrumented half.
#include <stdint.h>
#include <string.h>

#include <thread>
#include <vector>

#include "../rt/sim_api.h"
#include "c14m.h"
#include "rkcommon/memory/malloc.h"

// defined by the stub tbbmalloc (lane tbb only, the one lane this scenario runs on)
extern "C" void tbbstub_set_recycle(int on) __attribute__((weak));
extern "C" int tbbstub_live_blocks(void) __attribute__((weak));

namespace {
struct Block
{
  unsigned char *p = nullptr;
  size_t size = 0;
  uint64_t tag = 0;
};
// the block is the caller's for its full size: its first, middle and last bytes carry a tag
void stamp(Block &b)
{
  if (!b.p)
    return;
  if (b.size < 32) {
    memset(b.p, (int)(unsigned char)b.tag, b.size);
    return;
  }
  memcpy(b.p, &b.tag, 8);
  memcpy(b.p + b.size / 2, &b.tag, 8);
  memcpy(b.p + b.size - 8, &b.tag, 8);
}
bool intact(const Block &b)
{
  if (!b.p)
    return true;
  if (b.size < 32) {
    for (size_t i = 0; i < b.size; i++)
      if (b.p[i] != (unsigned char)b.tag)
        return false;
    return true;
  }
  uint64_t v[3];
  memcpy(&v[0], b.p, 8);
  memcpy(&v[1], b.p + b.size / 2, 8);
  memcpy(&v[2], b.p + b.size - 8, 8);
  return v[0] == b.tag && v[1] == b.tag && v[2] == b.tag;
}
void worker(int t)
{
  const C14MPlan *p = c14m_plan();
  Block slots[C14M_SLOTS];
  SimTag tag(SIM_TAG_SUT);
  for (int i = 0; i < p->nops[t]; i++) {
    const C14MOp &op = p->ops[t][i];
    Block &b = slots[op.slot];
    if (op.kind == C14M_ALLOC) {
      if (b.p) {
        if (!intact(b))
          return c14m_fail("C14:block-corrupted", "a live block lost its contents while other threads allocated and released memory");
        rkcommon::memory::alignedFree(b.p);
        b.p = nullptr;
      }
      size_t size = (size_t)c14m_size(op.size_idx), align = (size_t)1 << op.align_log2;
      unsigned char *q = (unsigned char *)rkcommon::memory::alignedMalloc(size, align);
      if (!q)
        continue;
      if ((uintptr_t)q & (align - 1))
        return c14m_fail("C14:misaligned-pointer", "alignedMalloc returned a pointer that is not a multiple of the alignment");
      b.p = q;
      b.size = size;
      b.tag = 0x5a00000000000000ULL | (uint64_t)t << 32 | (uint64_t)i << 8 | 0xa5;
      stamp(b);
      if (size >= (8u << 20))
        c14m_probe(0);
    } else if (op.kind == C14M_FREE) {
      if (b.p) {
        if (!intact(b))
          return c14m_fail("C14:block-corrupted", "a live block lost its contents while other threads allocated and released memory");
        rkcommon::memory::alignedFree(b.p);
        b.p = nullptr;
      }
    } else if (!intact(b)) {
      return c14m_fail("C14:block-corrupted", "a live block lost its contents while other threads allocated and released memory");
    }
  }
  for (Block &b : slots)
    if (b.p) {
      if (!intact(b))
        return c14m_fail("C14:block-corrupted", "a live block lost its contents while other threads allocated and released memory");
      rkcommon::memory::alignedFree(b.p);
    }
}
}  // namespace

extern "C" void c14m_run()
{
  const C14MPlan *p = c14m_plan();
  if (tbbstub_set_recycle)
    tbbstub_set_recycle(p->recycle);
  int live_before = tbbstub_live_blocks ? tbbstub_live_blocks() : 0;
  std::vector<std::thread> ths;
  for (int t = 1; t < p->nthreads; t++)
    ths.emplace_back([t]() { worker(t); });
  worker(0);
  for (auto &th : ths)
    th.join();
  c14m_backend_live(tbbstub_live_blocks ? tbbstub_live_blocks() - live_before : 0);
  c14m_done();
}
