// C13 — configured thread count. Instrumented half.
#include "../rt/sim_api.h"
#include "c13.h"
#include "rkcommon/tasking/parallel_for.h"
#include "rkcommon/tasking/tasking_system_init.h"

#include <thread>

using namespace rkcommon::tasking;

extern "C" void c13_run()
{
  const C13Plan *p = c13_plan();
  bool inited = false;
  for (int i = 0; i < p->nops; i++) {
    const C13Op &op = p->ops[i];
    // an application has more than one thread: the operation may be carried out by a helper thread that is started and
    // joined for it (so the history stays sequential)
    auto apply = [&]() {
    switch (op.kind) {
    case C13_INIT: {
      SimTag t(SIM_TAG_INFRA);
      initTaskingSystem(op.n);
      inited = true;
      c13_init_done(op.n);
      break;
    }
    case C13_QUERY: {
      SimTag t(SIM_TAG_INFRA);
      c13_query(numTaskingThreads());
      break;
    }
    case C13_NESTED: {
      if (!inited)
        break;
      int cost = op.cost, inner = op.n, q = op.query;
      c13_loop_begin(op.n);
      {
        SimTag t(SIM_TAG_SUT);
        parallel_for(3, [cost, inner, q](int) {
          parallel_for(inner, [cost, q](int i) {
            c13_body_enter();
            if (q && i == 0)
              c13_query_in_body(numTaskingThreads());
            sim_work((uint32_t)cost);
            c13_body_exit();
          });
        });
      }
      c13_loop_end();
      break;
    }
    case C13_LOOP: {
      if (!inited)
        break;  // the internal back end initialises itself lazily; keep histories comparable across lanes
      int cost = op.cost, q = op.query;
      c13_loop_begin(op.n);
      {
        SimTag t(SIM_TAG_SUT);
        parallel_for(op.n, [cost, q](int i) {
          c13_body_enter();
          if (q && i == 0)
            c13_query_in_body(numTaskingThreads());
          sim_work((uint32_t)cost);
          c13_body_exit();
        });
      }
      c13_loop_end();
      break;
    }
    }
    };
    if (p->hop_mask >> i & 1) {
      std::thread helper(apply);
      helper.join();
    } else {
      apply();
    }
  }
  sim_phase(3);
  if (inited) {
    SimTag t(SIM_TAG_INFRA);
    initTaskingSystem(1);
  }
  sim_phase(4);
}
