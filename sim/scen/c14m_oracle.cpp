// C14 — aligned allocation from several threads. Oracle half: plan; the memory checks are the tags (instrumented half) and
// the arena shadow (tbb lane: the stub tbbmalloc takes its blocks from the per-run arena).
#include <stdio.h>
#include <string.h>

#include "../rt/sim_api.h"
#include "c14m.h"

namespace {
C14MPlan plan;
bool done;
const unsigned long long SIZES[] = {8ULL << 20, (8ULL << 20) + 4096, (17ULL << 19), 9ULL << 20, (19ULL << 19), (10ULL << 20) - 1, (8ULL << 20) - 1, 6ULL << 20,
                                    0, 1, 64, 4097, 1ULL << 20};
const char *probe_names[] = {"block_of_8MiB_or_more_allocated", "allocator_reissues_released_blocks", nullptr};
const char *no_faults[] = {nullptr};
void reset()
{
  memset(&plan, 0, sizeof plan);
  done = false;
}
void do_plan(int)
{
  plan.nthreads = 2 + (int)sim_plan(2);
  sim_set_tso(sim_plan(4) == 0);
  bool big = sim_plan(3) != 0;  // most runs work with blocks of 8 to 10 MiB, sizes within a quarter of each other
  for (int t = 0; t < plan.nthreads; t++) {
    plan.nops[t] = 2 + (int)sim_plan(C14M_MAXOPS - 1);
    for (int i = 0; i < plan.nops[t]; i++) {
      C14MOp &op = plan.ops[t][i];
      unsigned k = sim_plan(5);
      op.kind = k < 3 ? C14M_ALLOC : (k == 3 ? C14M_FREE : C14M_VERIFY);
      op.slot = (int)sim_plan(C14M_SLOTS);
      op.size_idx = (int)sim_plan(big ? 8 : 13);
      static const int al[] = {4, 6, 12, 0};
      op.align_log2 = al[sim_plan(4)];
    }
  }
  plan.recycle = sim_plan(2) == 1;  // drawn last
  sim_set_step_cap(3000000);
}
void check()
{
  if (!done && !sim_failed())
    sim_fail("C14:scenario-did-not-finish", "the threads did not finish");
}
int stuck(int deadlock, char *cls, size_t n)
{
  if (deadlock) {
    snprintf(cls, n, "C14:deadlock");
    return 1;
  }
  return 0;
}
void describe(char *buf, size_t n)
{
  int k = snprintf(buf, n, "{\"allocator_reissues_released_blocks\": %d, \"threads\": [", plan.recycle);
  for (int t = 0; t < plan.nthreads; t++) {
    k += snprintf(buf + k, n - k, "%s[", t ? "," : "");
    for (int i = 0; i < plan.nops[t] && k < (int)n - 120; i++) {
      const C14MOp &op = plan.ops[t][i];
      if (op.kind == C14M_ALLOC)
        k += snprintf(buf + k, n - k, "%s\"s%d=alloc(%llu,%d)\"", i ? "," : "", op.slot, SIZES[op.size_idx], 1 << op.align_log2);
      else
        k += snprintf(buf + k, n - k, "%s\"%s s%d\"", i ? "," : "", op.kind == C14M_FREE ? "free" : "verify", op.slot);
    }
    k += snprintf(buf + k, n - k, "]");
  }
  snprintf(buf + k, n - k, "]}");
}
const SimScenario scen = {"c14mt", "C14", LANE_TBB, reset, do_plan, c14m_run, check, stuck, describe, no_faults, probe_names, 0, 0};
SimRegistrar reg(&scen);
}  // namespace

extern "C" {
const C14MPlan *c14m_plan() { return &plan; }
unsigned long long c14m_size(int idx) { return SIZES[idx]; }
void c14m_fail(const char *cls, const char *msg) { sim_fail(cls, "%s", msg); }
void c14m_probe(int id) { sim_probe(id); }
void c14m_done() { done = true; }
void c14m_backend_live(int blocks)
{
  if (plan.recycle)
    sim_probe(1);
  if (blocks != 0 && !sim_failed())
    sim_fail("C14:block-never-released", "every block was passed to alignedFree exactly once, but the allocator behind it still holds %d block(s) that were never released to it", blocks);
}
}
