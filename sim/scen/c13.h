#pragma once
// C13 — configured thread count. Shared between the halves.
enum { C13_INIT = 0, C13_QUERY = 1, C13_LOOP = 2, C13_NESTED = 3 };  // NESTED: every body of the outer loop runs an inner loop
struct C13Op
{
  int kind;
  int n;       // INIT: argument; LOOP: count
  int cost;    // LOOP: scheduling points per body
  int query;   // LOOP / NESTED: the body of index 0 asks numTaskingThreads() itself (NESTED: the inner body)
};
struct C13Plan
{
  int cores;
  int affinity;   // CPUs the process is allowed on (0: all)
  int nops;
  C13Op ops[10];
  unsigned hop_mask;  // bit i: operation i is carried out by a helper thread started and joined for it
};
extern "C" {
const C13Plan *c13_plan();
void c13_init_done(int n);
void c13_query(int reported);
void c13_query_in_body(int reported);
void c13_loop_begin(int count);
void c13_loop_end();
void c13_body_enter();
void c13_body_exit();
void c13_run();
}
