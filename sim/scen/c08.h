#pragma once
#include <stdint.h>
// C08 — IntrusivePtr / RefCountedObject. Shared between the halves.
enum {
  C08_COPY_CTOR = 0,   // slot[dst] (dead) constructed as copy of source
  C08_MOVE_CTOR,       // slot[dst] (dead) move-constructed from own slot[src]
  C08_CONV_CTOR,       // slot[dst] (dead) constructed from IntrusivePtr<Derived> dslot[src]
  C08_RAW_CTOR,        // slot[dst] (dead) constructed from raw pointer of object held by source
  C08_COPY_ASSIGN,     // slot[dst] = source (incl. self, empty source)
  C08_MOVE_ASSIGN,     // slot[dst] = std::move(own slot[src]), dst != src
  C08_RAW_ASSIGN,      // slot[dst] = raw pointer of source's object, or nullptr
  C08_DESTROY,         // slot[dst] destroyed
  C08_INCDEC,          // explicit refInc(); refDec() pair through slot[dst]
  C08_COMPARE,         // ==, !=, < between slot[dst] and source
  C08_PAYLOAD,         // write the payload through slot[dst]
  C08_DSLOT_SET,       // dslot[dst&1] = (Derived*) of source's object (raw assignment on IntrusivePtr<Derived>)
  C08_COMPARE_MIXED,   // ==, != between slot[dst] (handle to the base type) and dslot[src&1] (handle to the derived type)
  C08_RELEASE_CREATOR, // thread 0 only: drop the creator's reference of object arg
  C08_NOPS
};
struct C08Op
{
  uint8_t kind, dst, src_kind, src;  // src_kind: 0 own slot, 1 thread-0 slot (shared, read-only), 2 null/empty
  uint8_t arg;
};
enum { C08_SLOTS = 5, C08_MAXOBJ = 3, C08_MAXTHREADS = 6, C08_MAXOPS = 14 };
struct C08Plan
{
  int nobj;
  int nthreads;                    // concurrent threads (0: purely sequential history)
  int nseq1, nseq2;                // thread-0 ops before / after the concurrent phase
  C08Op seq1[C08_MAXOPS], seq2[C08_MAXOPS];
  int nops[C08_MAXTHREADS];
  C08Op ops[C08_MAXTHREADS][C08_MAXOPS];
  int release_creator_during[C08_MAXOBJ];  // thread 0 drops the creator reference while the threads run
  int barrier_at[C08_MAXTHREADS];          // op index after which a thread no longer reads thread 0's handles
  int t0_drops_during;                     // thread 0 destroys all its handles while the threads still run
  int fast_forward;                        // object 0 starts out with 2^32-4 further explicit references (state injection)
};
extern "C" {
const C08Plan *c08_plan();
void c08_obj_created(int obj);
void c08_obj_destroyed(int obj, int payload_ok);
// op protocol: pre computes the expected effect, post verifies what the code did
void c08_pre(int tid, const C08Op *op, int src_obj);
void c08_post(int tid, const C08Op *op, int dst_obj_after, int src_obj_after, int cmp_eq, int cmp_ne, int cmp_lt, int cmp_gt);
void c08_creator_release_pre(int obj);
void c08_creator_release_post(int obj);
void c08_count(int obj, long long observed);   // quiescent point
void c08_phase(int ph);
int c08_model_slot(int tid, int slot);          // object id or -1; -2 if the slot is dead
int c08_obj_alive(int obj);
int c08_payload_owner(int obj);
void c08_barrier_arrive(int tid);
void c08_wait_barriers(int n);
void c08_fast_forward(int obj, long long delta);
void c08_run();
}
