#pragma once
#include <stdint.h>
// C02 — schedule / async / AsyncTask. Shared between the halves.
enum { C02_SCHEDULE = 0, C02_ASYNC = 1, C02_ASYNCTASK = 2 };
enum { C02_T_INT = 0, C02_T_STRING = 1, C02_T_VECTOR = 2, C02_T_TRACKED = 3 };
enum { C02_A_FINISHED = 0, C02_A_VALID, C02_A_WAIT, C02_A_GET, C02_A_IDLE, C02_A_EXPECT_RUN, C02_A_NACT };  // EXPECT_RUN: the caller does nothing (fair phase) until the function has run
struct C02Item
{
  int api;
  int type;
  int task_work;       // scheduling points inside the task function
  int ctor_work;       // Tracked: scheduling points inside the default constructor
  int nested;          // 1: the function hands over a function of its own (async) and waits for its result before it returns
  int natural;         // 1: the function returns the result type's natural 'nothing' (0, empty string, empty vector, zeroed struct)
  int nact;
  int act[6];
  int act_arg[6];
};
enum { C02_MAXITEMS = 6 };
struct C02Plan
{
  int init_threads;    // initTaskingSystem(n), 0: none
  int lazy_teardown;   // internal back end used without initialisation: the scheduler it created on first use is replaced at the end
  int nitems;
  C02Item items[C02_MAXITEMS];
  int burst;           // additional scheduled closures in one burst
  int interleave;      // 1: create all items first, then run the consumer scripts round-robin
  int reinit_threads;  // >0: initTaskingSystem(n) again while tasks may still be queued or running
  int sporadic;        // fire-and-forget tasks handed over one at a time with idle gaps (workers go to sleep in between)
  int sporadic_idle[6];
  int sporadic_pair[6];  // 1: two functions are handed over back to back, the first keeps running until the second has run
};
extern "C" {
const C02Plan *c02_plan();
void c02_token(int delta);
void c02_exec(int id);                       // a task function body starts executing
void c02_exec_done(int id);
void c02_created(int id);
void c02_result(int id, int api, int type, long long value, int complete, int via);  // value delivered to the consumer
void c02_finished_polled(int id, int result);
void c02_get_begin(int id);
void c02_get_end(int id, unsigned long long blocked_before, unsigned long long blocked_after);
void c02_destroy_begin(int id);
void c02_destroy_end(int id);
void c02_tracked_ctor(const void *p);
void c02_tracked_dtor(const void *p);
void c02_tracked_assign(const void *p);
void c02_drain();
void c02_wait_one(int id);                   // fair phase: wait (doing nothing) until function id has run                            // fair phase: wait (without doing anything) until every task has run
void c02_wait_item(int id);                  // fair phase: wait (doing nothing) until the function of item id has run
void c02_wait_for(int id);   // spins until function id has completed (body of a long-lived function)
void c02_run();
}
