// C16 — XML reader. Oracle half: document generator (trees + legal serialisation variation),
// device faults, outcome oracle.
#include <stdio.h>
#include <string.h>

#include <algorithm>
#include <string>
#include <vector>

#include "../rt/sim_api.h"
#include "a16.h"

extern "C" unsigned long simio_stats(int which);

namespace {
struct GNode
{
  std::string name;
  std::vector<std::pair<std::string, std::string>> props;
  std::string content;
  std::vector<GNode> child;
};
struct St
{
  std::vector<unsigned char> bytes;
  std::vector<unsigned char> original;
  std::string expect_canon;
  int fault;
  long fault_arg;
  int mode;          // 0 valid fault-free, 1 valid + fault, 2 raw bytes
  int outcome;
  std::string outcome_text;
  bool have_outcome;
  int depth_max;
  int npre;
  long pre_cut[24];
  long soak_cut;   // >= 0: every pre-read beyond the first 24 is the document cut here (a long-lived process re-reading an incomplete file)
  int pre_accepted;
  int mid_reads;
  int pre_rejected;
} *st;

enum { F_SHORT = 0, F_FLIP, F_DROP, F_DUP, F_NUL, F_OPEN, F_TRUNC };
const char *fault_names[] = {"short_read", "flipped_byte", "dropped_byte", "duplicated_byte", "nul_byte", "open_failure", "file_truncated", nullptr};
enum { P_DOC = 0, P_RTERR, P_TREE_EQUAL, P_TRUNC_IN_STRING, P_TRUNC_IN_COMMENT, P_RAW_ACCEPTED, P_DEPTH_GE4, P_SHORT_READ_HIT, P_TRUNC_AFTER_BACKSLASH, P_PRE_GE8, P_BIG_FILE, P_SOAK, P_SOAK_ACCEPTED, P_STRETCH, P_ODD_HEADER, P_NONASCII_TEXT };
const char *probe_names[] = {"returned_document", "threw_runtime_error", "tree_compared_equal", "truncated_inside_quoted_string",
                             "truncated_inside_comment", "raw_bytes_accepted_as_document", "tree_depth_ge_4", "short_read_refused_bytes", "cut_right_after_a_backslash", "eight_or_more_rejected_reads_before_the_document", "file_of_64KiB_or_more", "same_incomplete_copy_read_200_to_1600_times_first", "incomplete_copy_accepted_500_times_or_more", "one_element_far_larger_than_the_rest", "header_with_an_unusual_version_value", "text_content_with_non_ascii_bytes", nullptr};

const char IDCH1[] = "abcXYZ_";
const char IDCH[] = "abcxyzABC019_.";
const char VALCH[] = "abc XYZ 019 .,:;/<>&=+-_()[]{}!?#%*";
const char TXTCH[] = "abc xyz 019 .,:;/>&=+-_()'\"[]{}!?#%*\t";
const char WS[] = " \n\t\r";

std::string gen_ident()
{
  std::string s;
  s += IDCH1[sim_plan(sizeof IDCH1 - 1)];
  unsigned n = sim_plan(5);
  for (unsigned i = 0; i < n; i++)
    s += IDCH[sim_plan(sizeof IDCH - 1)];
  return s;
}
std::string gen_ws(bool required)
{
  std::string s;
  unsigned n = sim_plan(required ? 3 : 4);
  if (required)
    n += 1;
  else if (n == 3)
    n = 0;
  for (unsigned i = 0; i < n; i++)
    s += WS[sim_plan(4)];
  return s;
}

void gen_tree(GNode &n, int depth, int maxdepth, int maxfan, int &budget)
{
  if (depth > st->depth_max)
    st->depth_max = depth;
  n.name = gen_ident();
  unsigned np = sim_plan(4);
  for (unsigned i = 0; i < np; i++) {
    std::string k = gen_ident();
    bool dup = false;
    for (auto &p : n.props)
      dup |= p.first == k;
    if (dup)
      continue;
    std::string v;
    unsigned vl = sim_plan(8);
    unsigned plainq = sim_plan(4);  // 1: value may hold plain ' (needs "..."), 2: plain " (needs '...')
    for (unsigned j = 0; j < vl; j++) {
      unsigned u = sim_plan(10);
      if (u == 0) {  // an escape: backslash + any character (quotes included); kept verbatim by the reader
        v += '\\';
        static const char ESC[] = "\"'\\nx<";
        v += ESC[sim_plan(sizeof ESC - 1)];
      } else if (u == 1 && plainq == 1) {
        v += '\'';
      } else if (u == 1 && plainq == 2) {
        v += '"';
      } else if (u == 2 && plainq == 3) {
        v += "\xc3\x9f";  // a non-ASCII character inside a value
      } else {
        v += VALCH[sim_plan(sizeof VALCH - 1)];
      }
    }
    n.props.emplace_back(k, v);
  }
  if (sim_plan(3) == 0) {
    unsigned tl = 1 + sim_plan(10);
    std::string t;
    // text is UTF-8 (or Latin-1) as often as ASCII: bytes above 0x7f anywhere, also first and last
    static const char *const NONASCII[] = {"\xc3\x96", "\xc2\xb5", "\xe6\x97\xa5", "\xd6", "\xe9", "\xc3\xa4\xc3\xb6"};
    const bool intl = sim_plan(3) == 0;
    if (intl)
      sim_probe(P_NONASCII_TEXT);
    for (unsigned j = 0; j < tl; j++) {
      if (intl && sim_plan(3) == 0)
        t += NONASCII[sim_plan(6)];
      else
        t += TXTCH[sim_plan(sizeof TXTCH - 1)];
    }
    // trimmed, non-empty: starts and ends with a non-white character
    size_t a = t.find_first_not_of(" \t"), b = t.find_last_not_of(" \t");
    if (a != std::string::npos)
      n.content = t.substr(a, b - a + 1);
  }
  if (depth < maxdepth) {
    unsigned nc = sim_plan((uint32_t)maxfan + 1);
    for (unsigned i = 0; i < nc && budget > 0; i++) {
      budget--;
      n.child.emplace_back();
      gen_tree(n.child.back(), depth + 1, maxdepth, maxfan, budget);
    }
  }
}

// deterministic filler of n characters from an alphabet; never starts or ends with white space
std::string filler(size_t n, const char *alphabet, unsigned seed)
{
  size_t na = strlen(alphabet);
  std::string s;
  s.reserve(n);
  unsigned x = seed * 2654435761u + 12345u;
  for (size_t i = 0; i < n; i++) {
    x = x * 1664525u + 1013904223u;
    char c = alphabet[(x >> 16) % na];
    if ((i == 0 || i + 1 == n) && (c == ' ' || c == '\t'))
      c = 'e';
    s += c;
  }
  return s;
}

// one element of the document far larger than the rest: long value / text / name, a deep chain, many siblings, many properties
void stretch(GNode &top)
{
  static const int sizes[] = {255, 256, 1023, 1024, 4095, 4097, 65535, 65537};
  unsigned kind = sim_plan(7);
  size_t sz = (size_t)sizes[sim_plan(8)];
  unsigned seed = sim_plan(1000);
  switch (kind) {
  case 0: top.props.emplace_back("longv", filler(sz, "abc XYZ 019 .,:;/<>&=+-_()[]{}!?#%*", seed)); break;
  case 1: {
    // a value made of escapes: backslash + character pairs, kept verbatim by the reader
    std::string v;
    for (size_t i = 0; i < sz / 2; i++) {
      v += '\\';
      v += "\"'\\nx<"[(seed + i) % 6];
    }
    top.props.emplace_back("longe", v);
    break;
  }
  case 2: {
    GNode c;
    c.name = "longc";
    c.content = filler(sz, "abc xyz 019 .,:;/>&=+-_()'\"[]{}!?#%*\t", seed);
    top.child.push_back(c);
    break;
  }
  case 3: {
    GNode c;
    c.name = "n" + filler(sz, "abcxyzABC019_.", seed);
    top.child.push_back(c);
    break;
  }
  case 4: {
    static const int depths[] = {30, 60, 100};
    int d = depths[seed % 3];
    GNode chain;
    chain.name = "d";
    GNode *cur = &chain;
    for (int i = 1; i < d; i++) {
      cur->child.emplace_back();
      cur->child.back().name = "d";
      cur = &cur->child.back();
    }
    top.child.push_back(chain);
    if (d + 1 > st->depth_max)
      st->depth_max = d + 1;
    break;
  }
  case 5: {
    static const int fans[] = {100, 300, 1000};
    int nf = fans[seed % 3];
    for (int i = 0; i < nf; i++) {
      GNode c;
      c.name = "w";
      if (i % 17 == 0)
        c.content = "t" + std::to_string(i);
      top.child.push_back(c);
    }
    break;
  }
  default: {
    int np = seed % 2 ? 200 : 50;
    for (int i = 0; i < np; i++)
      top.props.emplace_back("p" + std::to_string(i), "v" + std::to_string(i * 7));
    break;
  }
  }
  sim_probe(P_STRETCH);
}

std::string gen_comment()
{
  std::string s = "<!--";
  unsigned n = sim_plan(8);
  for (unsigned i = 0; i < n; i++)
    s += "abc <>-x\"'"[sim_plan(10)];
  // must not contain "-->" early: the generator's alphabet can produce "-->" only via "--" + ">"
  // (this reader ends a comment at the first "-->" after "<!", so "<!-->" is already complete)
  size_t p;
  while ((p = s.find("-->", 2)) != std::string::npos)
    s[p + 2] = '_';
  s += "-->";
  return s;
}

void serialise(const GNode &n, std::string &out)
{
  out += "<" + n.name;
  for (auto &p : n.props) {
    out += gen_ws(true);
    out += p.first + gen_ws(false) + "=" + gen_ws(false);
    // an unescaped quote character forces the other quote style
    bool has_dq = false, has_sq = false;
    for (size_t i = 0; i < p.second.size(); i++) {
      if (p.second[i] == '\\') {
        i++;
        continue;
      }
      has_dq |= p.second[i] == '"';
      has_sq |= p.second[i] == '\'';
    }
    bool dq = !has_dq && (has_sq || sim_plan(2));
    char q = dq ? '"' : '\'';
    out += q + p.second + q;
  }
  out += gen_ws(false);
  if (n.child.empty() && n.content.empty() && sim_plan(2)) {
    out += "/>";
    return;
  }
  out += ">";
  size_t text_pos = n.content.empty() ? (size_t)-1 : sim_plan((uint32_t)n.child.size() + 1);
  for (size_t i = 0; i <= n.child.size(); i++) {
    out += gen_ws(false);
    if (sim_plan(5) == 0)
      out += gen_comment() + gen_ws(false);
    if (i == text_pos) {
      out += n.content;
      out += gen_ws(false);
    }
    if (i < n.child.size())
      serialise(n.child[i], out);
  }
  out += "</" + n.name + ">";
}

void canon(const GNode &n, std::string &out)
{
  out += "<" + n.name;
  std::vector<std::pair<std::string, std::string>> ps = n.props;
  std::sort(ps.begin(), ps.end());
  for (auto &p : ps)
    out += " " + p.first + "=[" + p.second + "]";
  out += ">{" + n.content + "}";
  for (auto &c : n.child)
    canon(c, out);
  out += "</>";
}

void reset()
{
  delete st;
  st = new St();
  st->fault = A16_FAULT_NONE;
  st->fault_arg = -1;
  st->have_outcome = false;
  st->depth_max = 0;
}

void do_plan(int tier)
{
  unsigned m = sim_plan(8);
  st->mode = m < 3 ? 0 : (m < 7 ? 1 : 2);
  std::string text;
  if (st->mode == 2) {
    unsigned n = sim_plan(tier ? 200 : 64);
    static const char RAW[] = "<>/=\"'!-? \n\\ab_1.\0\xff&x\t\r\v\f";
    for (unsigned i = 0; i < n; i++)
      text += RAW[sim_plan(sizeof RAW - 1)];
    st->fault = A16_RAW;
  } else {
    if (sim_plan(2)) {
      text += "<?xml";
      if (sim_plan(2)) {
        // header properties are read and ignored, whatever their values
        static const char *versions[] = {"1.0", "1.0", "1.0", "1.1", "2.0", "10", "2147483647", "2147483648", "99999999999999999999999", "1e999", "-1", "", "x", "0x7fffffffffffffff1"};
        unsigned v = sim_plan(sizeof versions / sizeof versions[0]);
        char q = sim_plan(2) ? '"' : '\'';
        text += std::string(" version=") + q + versions[v] + q;
        if (sim_plan(2))
          text += " encoding='utf-8'";
        if (sim_plan(4) == 0)
          text += " standalone=\"yes\"";
        if (v > 2)
          sim_probe(P_ODD_HEADER);
      }
      text += "?>";
    }
    text += gen_ws(false);
    unsigned ntop = 1 + sim_plan(2);
    int budget = tier ? 40 : 14;
    std::vector<GNode> tops(ntop);
    for (unsigned i = 0; i < ntop; i++) {
      if (sim_plan(4) == 0)
        text += gen_comment() + gen_ws(false);
      gen_tree(tops[i], 1, tier ? 6 : 4, 4, budget);
      if (sim_plan(10) == 0)
        stretch(tops[i]);
      serialise(tops[i], text);
      text += gen_ws(false);
      canon(tops[i], st->expect_canon);
    }
    if (sim_plan(5) == 0)
      text += gen_comment() + gen_ws(false);
  }
  if (st->mode != 2 && sim_plan(16) == 0) {
    // a large file whose size is a whole number of pages (or just off it): padded with white space
    static const size_t sizes[] = {65536, 65536 + 4096, 131072, 65536 + 37};
    size_t want = sizes[sim_plan(4)];
    while (text.size() < want)
      text += text.size() % 61 == 0 ? '\n' : ' ';
    sim_probe(P_BIG_FILE);
  }
  st->original.assign(text.begin(), text.end());
  st->bytes = st->original;
  st->npre = 0;
  st->pre_rejected = 0;
  st->pre_accepted = 0;
  st->mid_reads = 0;
  if (st->mode == 0 && sim_plan(4) == 0) {
    st->npre = 1 + (int)sim_plan(20);
    for (int i = 0; i < st->npre; i++)
      st->pre_cut[i] = (long)sim_plan((uint32_t)text.size() + 1);
  }
  st->soak_cut = -1;
  if (st->mode == 0 && text.size() < 4096 && sim_plan(48) == 0) {
    // a long-lived process: the same incomplete copy (cut right after some tag, so that nodes are still open or the
    // document is simply shorter) is read hundreds of times before the complete document
    std::vector<long> after_tag;
    for (size_t i = 0; i < text.size(); i++)
      if (text[i] == '>')
        after_tag.push_back((long)i + 1);
    if (!after_tag.empty()) {
      st->soak_cut = after_tag[sim_plan((uint32_t)after_tag.size())];
      st->npre = 24 + 200 + (int)sim_plan(1400);
      for (int i = 0; i < 24; i++)
        st->pre_cut[i] = st->soak_cut;
      sim_probe(P_SOAK);
    }
  }
  if (st->mode == 1) {
    size_t n = st->bytes.size();
    unsigned k = sim_plan(15);
    long off = (long)sim_plan((uint32_t)n + 1);
    if (k >= 12) {
      // the stored file lost its tail (torn / incomplete write): the file really ends at `off`
      st->fault = A16_FAULT_TRUNC;
      st->fault_arg = off;
      st->bytes.resize((size_t)off);
    } else if (k < 5) {
      st->fault = A16_FAULT_SHORT_READ;
      st->fault_arg = off;
    } else if (k < 7 && n) {
      st->fault = A16_FAULT_FLIP;
      st->fault_arg = off % (long)n;
      if (sim_plan(3) == 0) {
        // a white-space byte (the nearest one at or after the offset) becomes one of the other bytes C calls white space or
        // a look-alike: vertical tab, form feed, NEL, no-break space
        size_t at = (size_t)st->fault_arg;
        for (size_t k2 = 0; k2 < n; k2++) {
          unsigned char c = st->bytes[(at + k2) % n];
          if (c == ' ' || c == '\n' || c == '\t' || c == '\r') {
            at = (at + k2) % n;
            break;
          }
        }
        // two times out of three the last byte of that white-space run (the one next to a tag or to text)
        if (sim_plan(3) != 0)
          while (at + 1 < n && (st->bytes[at + 1] == ' ' || st->bytes[at + 1] == '\n' || st->bytes[at + 1] == '\t' || st->bytes[at + 1] == '\r'))
            at++;
        static const unsigned char odd[] = {0x0b, 0x0c, 0x85, 0xa0, 0x1c, 0x7f};
        st->fault_arg = (long)at;
        st->bytes[at] = odd[sim_plan(sizeof odd)];
      } else
        st->bytes[(size_t)st->fault_arg] ^= (unsigned char)(1 + sim_plan(255));
    } else if (k < 9 && n) {
      st->fault = A16_FAULT_DROP;
      st->fault_arg = off % (long)n;
      st->bytes.erase(st->bytes.begin() + st->fault_arg);
    } else if (k < 10 && n) {
      st->fault = A16_FAULT_DUP;
      st->fault_arg = off % (long)n;
      st->bytes.insert(st->bytes.begin() + st->fault_arg, st->bytes[(size_t)st->fault_arg]);
    } else if (k < 11 && n) {
      st->fault = A16_FAULT_NUL;
      st->fault_arg = off % (long)n;
      st->bytes[(size_t)st->fault_arg] = 0;
    } else {
      st->fault = A16_FAULT_OPEN;
    }
  }
}

void check()
{
  if (!st->have_outcome) {
    sim_fail("C16:no-outcome", "readXML neither returned nor threw");
    return;
  }
  if (st->outcome >= 2) {
    sim_fail("C16:exception-other-than-runtime_error", "readXML threw %s: %s", st->outcome == 2 ? "a std::exception that is not a runtime_error" : "a non-standard exception",
             st->outcome_text.c_str());
    return;
  }
  sim_probe(st->outcome == 0 ? P_DOC : P_RTERR);
  if (st->depth_max >= 4)
    sim_probe(P_DEPTH_GE4);
  if (st->fault == A16_FAULT_OPEN && st->outcome != 1)
    sim_fail("C16:open-failure-not-reported", "fopen failed but readXML returned a document");
  if (st->mode == 0) {
    if (st->outcome != 0) {
      sim_fail("C16:valid-document-rejected", "a document of the supported subset was rejected: %s", st->outcome_text.c_str());
      return;
    }
    if (st->outcome_text != st->expect_canon) {
      // find first difference for the report
      size_t i = 0;
      while (i < st->outcome_text.size() && i < st->expect_canon.size() && st->outcome_text[i] == st->expect_canon[i])
        i++;
      std::string a = st->expect_canon.substr(i > 20 ? i - 20 : 0, 60), b = st->outcome_text.substr(i > 20 ? i - 20 : 0, 60);
      sim_fail("C16:tree-differs", "returned tree differs from the generating tree near canonical offset %zu: expected ...%s... got ...%s...", i, a.c_str(), b.c_str());
      return;
    }
    sim_probe(P_TREE_EQUAL);
  }
  if (st->mode == 2 && st->outcome == 0)
    sim_probe(P_RAW_ACCEPTED);
  if (st->fault == A16_FAULT_SHORT_READ || st->fault == A16_FAULT_TRUNC) {
    if (st->fault == A16_FAULT_SHORT_READ)
      sim_fault(F_SHORT, 1, 1);
    if (simio_stats(3))
      sim_probe(P_SHORT_READ_HIT);
    // where did the cut land?
    size_t k = (size_t)st->fault_arg;
    int quotes = 0;
    bool in_comment = false;
    if (k > 0 && k <= st->original.size() && st->original[k - 1] == '\\')
      sim_probe(P_TRUNC_AFTER_BACKSLASH);
    for (size_t i = 0; i < k && i < st->original.size(); i++) {
      if (!in_comment && (st->original[i] == '"'))
        quotes++;
      if (i + 3 < st->original.size() && !memcmp(&st->original[i], "<!--", 4))
        in_comment = true;
      if (in_comment && i >= 2 && !memcmp(&st->original[i - 2], "-->", 3))
        in_comment = false;
    }
    if (quotes & 1)
      sim_probe(P_TRUNC_IN_STRING);
    if (in_comment)
      sim_probe(P_TRUNC_IN_COMMENT);
  }
}

int stuck(int deadlock, char *cls, size_t n)
{
  (void)deadlock;
  snprintf(cls, n, "C16:does-not-terminate");
  return 1;
}

void describe(char *buf, size_t n)
{
  static const char *fn[] = {"none", "short_read", "flipped_byte", "dropped_byte", "duplicated_byte", "nul_byte", "open_failure", "raw_bytes", "file_truncated"};
  std::string doc;
  for (unsigned char c : st->bytes) {
    if (doc.size() > 300)
      break;
    if (c == '"' || c == '\\') {
      doc += '\\';
      doc += (char)c;
    } else if (c < 0x20 || c >= 0x7f) {
      char b[8];
      snprintf(b, sizeof b, "\\\\x%02x", c);
      doc += b;
    } else
      doc += (char)c;
  }
  snprintf(buf, n, "{\"mode\": \"%s\", \"fault\": \"%s\", \"fault_offset\": %ld, \"truncated_reads_before\": %d, \"file_bytes\": %zu, \"file\": \"%s\"}",
           st->mode == 0 ? "valid document, fault-free" : (st->mode == 1 ? "valid document + device fault" : "raw bytes"), fn[st->fault], st->fault_arg,
           st->npre, st->bytes.size(), doc.c_str());
}

const SimScenario scen = {"c16", "C16", 16, reset, do_plan, a16_run, check, stuck, describe, fault_names, probe_names, 1, 0};
SimRegistrar reg(&scen);
}  // namespace

extern "C" {
const unsigned char *a16_bytes(size_t *n)
{
  *n = st->bytes.size();
  return st->bytes.data();
}
int a16_fault(long *arg)
{
  *arg = st->fault_arg;
  // account the fault as fired (the decision was taken at plan time)
  static const int map[] = {-1, F_SHORT, F_FLIP, F_DROP, F_DUP, F_NUL, F_OPEN, -1, F_TRUNC};
  if (st->fault > A16_FAULT_SHORT_READ && st->fault != A16_RAW)
    sim_fault(map[st->fault], 1, 1);
  return st->fault;
}
int a16_pre_reads(void) { return st->npre; }
long a16_pre_cut(int i) { return i < 24 ? st->pre_cut[i] : st->soak_cut; }
void a16_pre_outcome(int kind)
{
  sim_event(1610 + (uint32_t)kind, 0, 0);
  if (kind == 2)
    sim_fail_nonfatal("C16:exception-other-than-runtime_error", "readXML threw something else than runtime_error for a truncated document");
  if (kind == 1 && ++st->pre_rejected == 8)
    sim_probe(P_PRE_GE8);
  if (kind == 0 && ++st->pre_accepted == 500)
    sim_probe(P_SOAK_ACCEPTED);
}
int a16_soak(void) { return st->soak_cut >= 0; }
void a16_mid_outcome(int kind, const char *text)
{
  sim_event(1620 + (uint32_t)kind, 0, 0);
  st->mid_reads++;
  if (sim_failed())
    return;
  if (kind != 0)
    sim_fail_nonfatal("C16:valid-document-rejected", "a document of the supported subset was rejected after %d reads of an incomplete copy and %d of itself: %s",
                      st->pre_accepted + st->pre_rejected, st->mid_reads - 1, kind == 1 ? text : "(not a runtime_error)");
  else if (st->expect_canon != text)
    sim_fail_nonfatal("C16:tree-differs", "the tree returned for read %d of the same complete document differs from the generating tree", st->mid_reads);
}
void a16_outcome(int kind, const char *text)
{
  st->outcome = kind;
  st->outcome_text = text;
  st->have_outcome = true;
  sim_event(1600 + (uint32_t)kind, st->outcome_text.size(), 0);
}
}
