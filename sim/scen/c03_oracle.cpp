// C03 — AsyncLoop protocol. Oracle half (uninstrumented): plan, history predicates.
#include <semaphore.h>
#include <stdio.h>
#include <string.h>

#include "../rt/sim_api.h"
#include "c03.h"

extern "C" unsigned rksim_lane_bit();

namespace {
C03Plan plan;
struct State
{
  bool inside;          // a body invocation is between enter and exit
  bool stopped;         // between a stop() return and the next start() invoke
  bool destroyed;       // destructor returned
  bool owns_thread;     // launch == THREAD (decided launch)
  bool running_wanted;  // start() returned more recently than any stop() invoke
  unsigned long bodies;
  int in_stop, in_start;
  int ctrl_pos;
  bool ctrl_done;
} st;

enum { P_STOP_SAW_INSIDE = 0, P_BODY_AFTER_START, P_EXPECT_RAN, P_STOP_WHILE_RUNNING, P_REDUNDANT_START, P_REDUNDANT_STOP, P_DTOR_WHILE_RUNNING, P_WORKERS_BUSY, P_CROWD };
int blockers_started, blockers_released;
unsigned long long dtor_invoked_at;
const char *probe_names[] = {"stop_invoked_while_body_inside", "body_ran_after_start", "expect_progress_executed",
                             "stop_while_running", "redundant_start", "redundant_stop", "destroy_while_running", "every_tasking_thread_held_by_other_work", "sixteen_or_more_other_loops_alive", nullptr};
const char *fault_names[] = {"spurious_wakeup", "clock_jump", "timed_wait_expired_while_peers_stalled", nullptr};

void reset()
{
  memset(&st, 0, sizeof st);
  memset(&plan, 0, sizeof plan);
  blockers_started = blockers_released = 0;
  dtor_invoked_at = 0;
}

void do_plan(int tier)
{
  (void)tier;
  unsigned lane_tasking = rksim_lane_bit() & (LANE_INTERNAL | LANE_OMP | LANE_TBB);
  if (lane_tasking) {
    // THREAD, TASK, AUTO(with >4 threads -> TASK, else THREAD)
    unsigned k = sim_plan(4);
    if (k == 0) {
      plan.launch = 1;
      plan.init_threads = sim_plan(2) ? 2 + (int)sim_plan(3) : 0;
    } else if (k == 1 || k == 3) {
      plan.launch = 2;
      plan.init_threads = 2 + (int)sim_plan(3);
      if (sim_plan(6) == 0)
        plan.init_threads = 1;  // a tasking system without a worker thread besides the caller
    } else {
      plan.launch = 0;
      plan.init_threads = 2 + (int)sim_plan(5);
    }
  } else {
    unsigned k = sim_plan(5);
    plan.launch = k == 0 ? 2 : (k & 1);  // AUTO resolves to THREAD without a tasking system; TASK is asked for explicitly in 1 run of 5
    plan.init_threads = 0;
  }
  sim_set_cores(2 + (int)sim_plan(5));
  sim_set_tso(sim_plan(4) == 0);
  plan.body_cost = (int)sim_plan(4);
  plan.spurious = (int)sim_plan(2);
  sim_set_spurious(plan.spurious);
  plan.ctrl_in_loop = sim_plan(8) == 0;
  plan.nops = 1 + (int)sim_plan(8);
  for (int i = 0; i < plan.nops; i++) {
    unsigned k = sim_plan(6);
    if (k == 0 || k == 4) {
      plan.ops[i].kind = C03_OP_START;
    } else if (k == 1 || k == 5) {
      plan.ops[i].kind = C03_OP_STOP;
    } else if (k == 2) {
      plan.ops[i].kind = C03_OP_IDLE;
      plan.ops[i].arg = 1 + (int)sim_plan(6);
    } else {
      plan.ops[i].kind = C03_OP_EXPECT;
    }
  }
  bool task = plan.launch == 2 || (plan.launch == 0 && plan.init_threads > 4);
  st.owns_thread = !task;
  unsigned lane = rksim_lane_bit();
  plan.busy_workers = task && plan.init_threads >= 2 && !plan.ctrl_in_loop && (lane == LANE_INTERNAL || lane == LANE_TBB) && sim_plan(5) == 0;
  // drawn last: a crowd of other loops (16 or more: whatever the loops share per process is shared by at least two of them)
  plan.crowd = !plan.busy_workers && sim_plan(10) == 9 ? 16 + (int)sim_plan(4) : 0;
  if (plan.crowd)
    sim_probe(P_CROWD);
  sim_set_step_cap(plan.crowd ? 1200000 : 400000);
}

void check()
{
  if (st.inside)
    sim_fail("C03:S3:body-still-inside-at-end", "a body invocation never finished");
}

int classify_stuck(int deadlock, char *cls, size_t n)
{
  int ph = sim_get_phase();
  if (deadlock) {
    if (ph == 2)
      snprintf(cls, n, "C03:S3:destructor-never-returns");
    else if (ph >= 3)
      snprintf(cls, n, "C03:S3:loop-never-terminates-after-destroy");
    else
      snprintf(cls, n, "C03:S2:deadlock-in-start-stop");
    return 1;
  }
  // step cap. With every tasking thread held by other work a task-launched loop never starts, and destroying it
  // involves no waiting at all; the destructor has run in a fault-free fair phase for >= 100000 points of its own budget
  if (plan.busy_workers && ph == 2 && blockers_started > 0 && dtor_invoked_at && !st.destroyed && sim_steps() - dtor_invoked_at >= 100000) {
    snprintf(cls, n, "C03:S3:destructor-never-returns");
    return 1;
  }
  return 0;  // step cap: inconclusive
}

void describe(char *buf, size_t n)
{
  static const char *opn[] = {"start", "stop", "idle", "expect-progress"};
  static const char *ln[] = {"AUTO", "THREAD", "TASK"};
  int k = snprintf(buf, n, "{\"launch\": \"%s\", \"init_threads\": %d, \"body_cost\": %d, \"spurious_wakeups\": %d, \"controller_is_another_loops_body\": %d, \"tasking_threads_held_by_other_work\": %d, \"other_loops_alive\": %d, \"script\": [",
                   ln[plan.launch], plan.init_threads, plan.body_cost, plan.spurious, plan.ctrl_in_loop, plan.busy_workers, plan.crowd);
  for (int i = 0; i < plan.nops && k < (int)n - 40; i++) {
    if (plan.ops[i].kind == C03_OP_IDLE)
      k += snprintf(buf + k, n - k, "%s\"idle(%d)\"", i ? "," : "", plan.ops[i].arg);
    else
      k += snprintf(buf + k, n - k, "%s\"%s\"", i ? "," : "", opn[plan.ops[i].kind]);
  }
  snprintf(buf + k, n - k, ",\"destroy\"]}");
}

const SimScenario scen = {"c03", "C03", LANE_ALL, reset, do_plan, c03_run, check, classify_stuck, describe, fault_names, probe_names, 0};
SimRegistrar reg(&scen);
}  // namespace

extern "C" {
const C03Plan *c03_plan() { return &plan; }

void c03_ev(int code)
{
  sim_event((uint32_t)code, 0, 0);
  switch (code) {
  case C03_START_INVOKE:
    if (st.running_wanted)
      sim_probe(P_REDUNDANT_START);
    st.stopped = false;
    break;
  case C03_START_RETURN:
    st.running_wanted = true;
    break;
  case C03_STOP_INVOKE:
    if (st.inside)
      sim_probe(P_STOP_SAW_INSIDE);
    if (st.running_wanted)
      sim_probe(P_STOP_WHILE_RUNNING);
    else
      sim_probe(P_REDUNDANT_STOP);
    st.running_wanted = false;
    break;
  case C03_STOP_RETURN:
    if (st.inside)
      sim_fail("C03:S1:body-inside-at-stop-return", "stop() returned while a body invocation is executing");
    st.stopped = true;
    break;
  case C03_DTOR_INVOKE:
    if (st.running_wanted)
      sim_probe(P_DTOR_WHILE_RUNNING);
    st.running_wanted = false;
    if (plan.busy_workers) {
      // the destructor gets a budget of its own: what the script and the spinning work used up before does not count
      dtor_invoked_at = sim_steps();
      sim_set_step_cap(dtor_invoked_at + 150000);
    }
    break;
  case C03_DTOR_RETURN:
    st.destroyed = true;
    if (st.owns_thread && st.inside)
      sim_fail("C03:S3:body-inside-at-destructor-return", "destructor of a thread-owning loop returned while the body runs");
    break;
  }
}

static sem_t ctrl_sem;  // modelled by the simulator (the interposed sem_* functions)
int c03_ctrl_next()
{
  if (st.ctrl_pos >= plan.nops) {
    if (!st.ctrl_done) {
      st.ctrl_done = true;
      sem_post(&ctrl_sem);
    }
    return -1;
  }
  return st.ctrl_pos++;
}
void c03_ctrl_wait_done()
{
  // (the simulator models a semaphore it has not seen yet with the value 0; an explicit sem_init here
  // could wipe out a post the controlling loop has already made)
  sem_wait(&ctrl_sem);  // thread 0 sleeps until the controlling loop has issued the whole script
}
void c03_body_enter()
{
  sim_event(C03_BODY_ENTER, 0, 0);
  if (st.inside)
    sim_fail("C03:body-reentered", "two body invocations overlap");
  if (st.stopped)
    sim_fail("C03:S1:body-began-after-stop-returned", "body began executing after stop() returned and before start()");
  if (st.destroyed && st.owns_thread)
    sim_fail("C03:S3:body-began-after-destructor", "body began after the destructor of a thread-owning loop returned");
  st.inside = true;
  st.bodies++;
  if (st.running_wanted)
    sim_probe(P_BODY_AFTER_START);
}

void c03_body_exit()
{
  sim_event(C03_BODY_EXIT, 0, 0);
  st.inside = false;
}

// S2: after start() returned (and no stop() since) the body runs again within the bound, in a
// fault-free fair phase
static sem_t blocker_sem;  // modelled by the simulator; a thread blocked on it uses up none of the run's step budget
void c03_crowd_body() {}
void c03_blocker()
{
  if (sim_self() == 0)
    return;  // run by the scheduling thread itself (full pipe, shutdown): never make thread 0 wait for its own release
  blockers_started++;
  while (!blockers_released)
    sem_wait(&blocker_sem);
}
void c03_wait_blockers(int n)
{
  unsigned long long bound = sim_steps() + 60000;
  while (blockers_started < n && sim_steps() < bound)
    sim_yield();
  if (blockers_started >= n)
    sim_probe(P_WORKERS_BUSY);
}
void c03_release_blockers()
{
  blockers_released = 1;
  for (int i = 0; i < blockers_started; i++)
    sem_post(&blocker_sem);
}

void c03_expect_progress()
{
  if (!st.running_wanted)
    return;
  if (plan.busy_workers && !blockers_released)
    return;  // no tasking thread is free: nothing can be expected of a task-launched loop yet
  sim_probe(P_EXPECT_RAN);
  sim_event(C03_EXPECT_BEGIN, 0, 0);
  unsigned long c0 = st.bodies;
  sim_set_fair(1);
  unsigned long long bound = sim_steps() + 20000;
  while (st.bodies == c0 && sim_steps() < bound)
    sim_yield();
  sim_set_fair(0);
  if (st.bodies == c0)
    sim_fail("C03:S2:no-progress-after-start", "start() returned but the body did not run within 20000 fair scheduling points (lost wake-up)");
  sim_event(C03_EXPECT_END, 0, 0);
}
}
