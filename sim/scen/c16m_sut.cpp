// C16 — readXML from several threads at once. Instrumented half.
#include <stdexcept>
#include <string>
#include <thread>
#include <vector>

#include "../rt/sim_api.h"
#include "c16m.h"
#include "rkcommon/xml/XML.h"

namespace {
void canonical(const rkcommon::xml::Node &n, std::string &out)
{
  out += n.name;
  out += '{';
  for (auto &kv : n.properties) {
    out += kv.first;
    out += '=';
    out += kv.second;
    out += ';';
  }
  out += "}[";
  out += n.content;
  out += "](";
  for (auto &c : n.child)
    canonical(c, out);
  out += ')';
}
void reader(int t)
{
  const C16MPlan *p = c16m_plan();
  for (int i = 0; i < p->ndocs[t]; i++) {
    SimTag tag(SIM_TAG_SUT);
    try {
      rkcommon::xml::XMLDoc doc = rkcommon::xml::readXML(c16m_path(t, i));
      std::string c;
      for (auto &top : doc.child)
        canonical(top, c);
      c16m_document(t, i, c.c_str());
    } catch (const std::runtime_error &) {
      c16m_threw(t, i, 1);
    } catch (...) {
      c16m_threw(t, i, 0);
    }
  }
}
}  // namespace

extern "C" void c16m_run()
{
  const C16MPlan *p = c16m_plan();
  std::vector<std::thread> ths;
  for (int t = 1; t < p->nthreads; t++)
    ths.emplace_back([t]() { reader(t); });
  reader(0);
  for (auto &th : ths)
    th.join();
}
