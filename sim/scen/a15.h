#pragma once
#include <stddef.h>
#include <stdint.h>
// C15 — stream serialization. Shared between the halves.
enum { A15_U8 = 0, A15_I16, A15_I32, A15_U64, A15_F32, A15_F64, A15_POD, A15_STRING, A15_CSTRING, A15_VEC_INT, A15_VEC_STRING, A15_VEC_VEC_INT,
       A15_ARRAYVIEW, A15_OWNEDARRAY, A15_FIXEDARRAY, A15_FIXEDARRAYVIEW,
       // vectors whose elements go through the generic (raw bytes) operators: 1, 2, 3, 4, 8 and 24 bytes each, trivial and not
       A15_VEC_U8, A15_VEC_I16, A15_VEC_RGB, A15_VEC_PAIR16, A15_VEC_TAG, A15_VEC_F64, A15_VEC_POD,
       // vectors of C strings (nested or not): each element travels as a string and reads back into a std::string
       A15_VEC_CSTRING, A15_VEC_VEC_CSTRING, A15_NTYPES };
struct A15Value
{
  int type;
  uint64_t scalar;        // seed of the value
  int len;                // strings / vectors
  int sub[4];             // inner lengths
};
enum { A15_MAXVALS = 10, A15_MAXFIXOPS = 12 };
struct A15FixOp
{
  int reserve;            // 0 write, 1 reserve
  int size;
};
struct A15Plan
{
  int mode;               // 0 round trip fault-free, 1 round trip with the channel cut at `cut`, 2 fixed-capacity device,
                          // 3 a reader attached to the writer's buffer while the writer keeps writing
  int nvals;
  A15Value vals[A15_MAXVALS];
  int cut_choice;         // resolved against the written size at run time (mode 3: write/read pattern bits)
  unsigned flush_mask;    // bit i: flush() is called on the stream after value i was written (bit 15: once more when all are written)
  int reader_at;          // mode 3: the reader is created after this many values have been written
  int capacity_choice;    // mode 2: 0 needed-1, 1 needed, 2 needed+1, 3 random
  int capacity_random;
  int nfix;
  A15FixOp fix[A15_MAXFIXOPS];
};
extern "C" {
const A15Plan *a15_plan();
void a15_fail(const char *cls, const char *msg);
void a15_note_cut(size_t total, size_t cut, int values_before_cut, int threw_at);
void a15_note_fixed(int accepted, int rejected, int exact_fit_seen, int one_over_seen);
void a15_probe(int id);
void a15_run();
}
