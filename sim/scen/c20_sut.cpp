// C20 — trace log and image writers. Instrumented half.
#include <pthread.h>
#include <string>
#include <thread>
#include <vector>

#include <dlfcn.h>
#include <locale.h>
#include <locale>
#include <stdlib.h>

#include "../rt/sim_api.h"
#include "c20.h"
#include "rkcommon/tracing/Tracing.h"
#include "rkcommon/utility/SaveImage.h"

extern unsigned rkcommon_verif_trace_chunk;

using namespace rkcommon::tracing;

namespace {

struct Sink  // either a private recorder's list or the process-global free functions
{
  std::shared_ptr<ThreadEventList> list;
  bool global;
  void begin(const char *n, const char *c) { global ? rkcommon::tracing::beginEvent(n, c) : list->beginEvent(n, c); }
  void end() { global ? rkcommon::tracing::endEvent() : list->endEvent(); }
  void marker(const char *n, const char *c) { global ? rkcommon::tracing::setMarker(n, c) : list->setMarker(n, c); }
  void counter(const char *n, uint64_t v) { global ? rkcommon::tracing::setCounter(n, v) : list->setCounter(n, v); }
};

void record(TraceRecorder *rec, int slot)
{
  const C20TPlan *p = c20t_plan();
  SimTag tag(SIM_TAG_SUT);
  Sink s;
  s.global = p->global_api != 0;
  char tname[16];
  if (p->same_names)
    snprintf(tname, sizeof tname, "worker");
  else
    snprintf(tname, sizeof tname, "thr-%d", slot);
  if (s.global) {
    if (p->named[slot])
      rkcommon::tracing::setThreadName(tname);
    else
      rkcommon::tracing::setThreadName("");
  } else {
    s.list = rec->getThreadTraceList(std::this_thread::get_id());
    if (p->named[slot])
      s.list->threadName = tname;
  }
  c20t_thread_begin(slot, p->named[slot], (unsigned long long)pthread_self());
  for (int i = 0; i < p->bulk[slot]; i++) {
    int nm = p->huge_names ? C20_NAMES + (i + slot) % C20_HUGE_NAMES : (p->many_names ? 4 + (i * 7 + slot) % (C20_NAMES - 4) : (i & 3));
    s.marker(c20_name(nm), c20_cat(i % 3));
    c20t_recorded(slot, C20_MARKER, nm, i % 3, 0);
  }
  int depth = 0;
  for (int i = 0; i < p->nops[slot]; i++) {
    const C20TOp &op = p->ops[slot][i];
    switch (op.kind) {
    case C20_BEGIN:
      if (depth >= 4)
        break;
      s.begin(c20_name(op.name), c20_cat(op.cat));
      c20t_recorded(slot, C20_BEGIN, op.name, op.cat, 0);
      depth++;
      break;
    case C20_END:
      if (!depth)
        break;
      s.end();
      c20t_recorded(slot, C20_END, -1, -1, 0);
      depth--;
      break;
    case C20_MARKER:
      s.marker(c20_name(op.name), c20_cat(op.cat));
      c20t_recorded(slot, C20_MARKER, op.name, op.cat, 0);
      break;
    case C20_COUNTER:
      s.counter(c20_name(op.name), op.value);
      c20t_recorded(slot, C20_COUNTER, op.name, -1, op.value);
      break;
    }
  }
  while (!p->leave_open && depth--) {
    s.end();
    c20t_recorded(slot, C20_END, -1, -1, 0);
  }
}

template <typename P>
P *make_pixels(int w, int h)
{
  SimTag tag(SIM_TAG_SUT);
  return new P[(size_t)w * (size_t)h];  // exactly w*h pixels: any over-read hits the red zone
}

inline unsigned char bytev(int x, int y, int c, int seed) { return (unsigned char)(x * 7 + y * 13 + c * 50 + seed); }
inline float floatv(int x, int y, int c, int seed) { return (float)(x + 100 * y + 10000 * c + seed) + 0.5f; }

}  // namespace

static std::string locale_dir()
{
  Dl_info di;
  if (!dladdr((void *)&locale_dir, &di) || !di.dli_fname)
    return "";
  std::string dir(di.dli_fname);
  size_t slash = dir.rfind('/');
  return (slash == std::string::npos ? std::string(".") : dir.substr(0, slash)) + "/locale";
}

extern "C" void c20trace_run()
{
  const C20TPlan *p = c20t_plan();
  // std::locale::global(std::locale("")) under de_DE, fr_FR, ...: every stream created afterwards formats numbers that way
  std::locale::global(std::locale::classic());
  setlocale(LC_ALL, "C");
  struct Restore
  {
    ~Restore()
    {
      std::locale::global(std::locale::classic());
      setlocale(LC_ALL, "C");
    }
  } restore;
  if (p->cxx_locale) {
    setenv("LOCPATH", locale_dir().c_str(), 1);
    try {
      std::locale::global(std::locale("xx_XX"));
      c20t_locale_result(1);
    } catch (const std::exception &) {
      c20t_locale_result(0);  // the test locale was not built: the run stays in the classic locale
    }
  }
  rkcommon_verif_trace_chunk = p->chunk;
  TraceRecorder *rec = nullptr;
  if (!p->global_api) {
    SimTag tag(SIM_TAG_SUT);
    rec = new TraceRecorder();
  }
  auto save = [&]() {
    SimTag tag(SIM_TAG_SUT);
    const char *pn = p->process_name ? "rksim-process" : nullptr;
    if (p->global_api)
      rkcommon::tracing::saveLog(c20_path(), pn);
    else
      rec->saveLog(c20_path(), pn);
  };
  if (p->extra_save == 2)
    save();  // a log saved before anything was recorded; saving must not change what later saves contain
  std::vector<std::thread> ths;
  int first = p->t0_records ? 1 : 0;
  for (int t = first; t < p->nthreads; t++) {
    ths.emplace_back([=]() { record(rec, t); });
    if (p->sequential) {
      ths.back().join();
      ths.pop_back();
    }
  }
  if (p->t0_records && p->nthreads > 0)
    record(rec, 0);
  for (auto &t : ths)
    t.join();
  if (p->extra_save)
    save();
  save();
  c20t_saved();
  if (rec) {
    SimTag tag(SIM_TAG_SUT);
    delete rec;
  }
}

static void write_one(const C20IPlan *p, const std::string &path)
{
  using namespace rkcommon::utility;
  using namespace rkcommon::math;
  int w = p->w, h = p->h, seed = p->seed;
  switch (p->format) {
  case 0:
  case 1: {
    uint32_t *px = make_pixels<uint32_t>(w, h);
    for (int y = 0; y < h; y++)
      for (int x = 0; x < w; x++) {
        uint32_t v = 0;
        for (int c = 0; c < 4; c++)
          v |= (uint32_t)bytev(x, y, c, seed) << (8 * c);
        px[y * w + x] = v;
      }
    {
      SimTag tag(SIM_TAG_SUT);
      if (p->format == 0)
        writePPM(path, w, h, px);
      else
        writePGM(path, w, h, px);
    }
    delete[] px;
    break;
  }
  case 2: {
    float *px = make_pixels<float>(w, h);
    for (int y = 0; y < h; y++)
      for (int x = 0; x < w; x++)
        px[y * w + x] = floatv(x, y, 0, seed);
    {
      SimTag tag(SIM_TAG_SUT);
      writePFM<float>(path, w, h, px);
    }
    delete[] px;
    break;
  }
  case 3: {
    vec3f *px = make_pixels<vec3f>(w, h);
    for (int y = 0; y < h; y++)
      for (int x = 0; x < w; x++)
        px[y * w + x] = vec3f(floatv(x, y, 0, seed), floatv(x, y, 1, seed), floatv(x, y, 2, seed));
    {
      SimTag tag(SIM_TAG_SUT);
      writePFM<vec3f>(path, w, h, px);
    }
    delete[] px;
    break;
  }
  case 4: {
    vec3fa *px = make_pixels<vec3fa>(w, h);
    for (int y = 0; y < h; y++)
      for (int x = 0; x < w; x++)
        px[y * w + x] = vec3fa(floatv(x, y, 0, seed), floatv(x, y, 1, seed), floatv(x, y, 2, seed));
    {
      SimTag tag(SIM_TAG_SUT);
      writePFM<vec3fa>(path, w, h, px);
    }
    delete[] px;
    break;
  }
  default: {
    vec4f *px = make_pixels<vec4f>(w, h);
    for (int y = 0; y < h; y++)
      for (int x = 0; x < w; x++)
        px[y * w + x] = vec4f(floatv(x, y, 0, seed), floatv(x, y, 1, seed), floatv(x, y, 2, seed), floatv(x, y, 3, seed));
    {
      SimTag tag(SIM_TAG_SUT);
      writePFM<vec4f>(path, w, h, px);
    }
    delete[] px;
    break;
  }
  }
}

// the directory the lane's library was loaded from holds the locale compiled at build time
static void adopt_decimal_comma_locale()
{
  Dl_info di;
  if (!dladdr((void *)&adopt_decimal_comma_locale, &di) || !di.dli_fname) {
    c20i_locale_result(0);
    return;
  }
  std::string dir(di.dli_fname);
  size_t slash = dir.rfind('/');
  dir = (slash == std::string::npos ? std::string(".") : dir.substr(0, slash)) + "/locale";
  setenv("LOCPATH", dir.c_str(), 1);
  c20i_locale_result(setlocale(LC_NUMERIC, "xx_XX") != nullptr);
}

extern "C" void c20img_run()
{
  setlocale(LC_ALL, "C");
  if (c20i_decimal_comma())
    adopt_decimal_comma_locale();  // what an application does with setlocale(LC_ALL, "") under de_DE, fr_FR, ...
  struct Restore
  {
    ~Restore() { setlocale(LC_ALL, "C"); }
  } restore;
  int n = c20i_count();
  if (n <= 1) {
    write_one(c20i_plan_n(0), c20_path_n(0));
  } else if (c20i_one_after_another()) {
    // a process that writes several images, of different sizes and formats, in a row
    for (int i = 0; i < n; i++)
      write_one(c20i_plan_n(i), c20_path_n(i));
  } else {
    // every thread writes its own image to its own file
    std::vector<std::thread> ths;
    for (int i = 0; i < n; i++)
      ths.emplace_back([i]() { write_one(c20i_plan_n(i), c20_path_n(i)); });
    for (auto &t : ths)
      t.join();
  }
  c20i_written();
}
