// C01 — parallel loops. Instrumented half.
#include <deque>
#include <functional>
#include <memory>
#include <thread>
#include <vector>

#include "../rt/sim_api.h"
#include "c01.h"
#include "rkcommon/tasking/parallel_for.h"
#include "rkcommon/tasking/parallel_foreach.h"
#include "rkcommon/tasking/schedule.h"
#include "rkcommon/tasking/tasking_system_init.h"

using namespace rkcommon::tasking;

namespace {

struct Elem
{
  int v;
};

struct CallCtx
{
  int h;
  long long count;
  int *slots;  // one per index, written by the body, read by the caller after the call
  const C01Call *c;
  bool inner;
};

void run_call(const C01Call &c, bool inner, int api, int itype, long long count, int block);

struct BodyFailure
{
};

inline void visit(CallCtx &cx, long long idx)
{
  if (c01_body(cx.h, idx))
    cx.slots[idx] = 7000 + (int)(idx & 0xfff);
  const C01Call &c = *cx.c;
  if (!cx.inner && c.throw_at >= 0 && idx == c.throw_at) {
    c01_body_exit(cx.h);
    throw BodyFailure();
  }
  if (!cx.inner) {
    if (c.cost && c.cost_mod && idx % c.cost_mod == 0)
      sim_work((uint32_t)c.cost);
    if (c.nested_at >= 0 && idx == c.nested_at)
      run_call(c, true, c.inner_api, c.inner_itype, c.inner_count, c.inner_block);
  }
  c01_body_exit(cx.h);
}

// a function object that owns heap state; the loop must run every invocation on an object that still has it
template <typename I>
struct OwningBody
{
  CallCtx *cx;
  std::vector<int> state;
  void operator()(I i) const
  {
    if (state.size() != 3 || state[2] != 4242)
      c01_state_lost(cx->h, (long long)i, 0);
    visit(*cx, (long long)i);
  }
};

template <typename I>
void do_for(CallCtx &cx)
{
  I n = (I)cx.count;
  SimTag tag(SIM_TAG_SUT);
  const int kind = cx.inner ? 0 : cx.c->functor;
  if (kind == 1) {
    // passed as a temporary: an implementation may move it, but only to where the invocations then run
    auto sp = std::make_shared<int>(4242);
    parallel_for(n, [&cx, sp](I i) {
      if (!sp || *sp != 4242)
        c01_state_lost(cx.h, (long long)i, 0);
      visit(cx, (long long)i);
    });
  } else if (kind == 2) {
    auto sp = std::make_shared<int>(4242);
    parallel_for(n, std::function<void(I)>([&cx, sp](I i) {
      if (!sp || *sp != 4242)
        c01_state_lost(cx.h, (long long)i, 0);
      visit(cx, (long long)i);
    }));
  } else if (kind == 3) {
    OwningBody<I> body{&cx, {1, 2, 4242}};
    parallel_for(n, body);
    if (body.state.size() != 3)  // a named object is the caller's: the loop may copy it, not empty it
      c01_state_lost(cx.h, -1, 1);
  } else {
    parallel_for(n, [&cx](I i) { visit(cx, (long long)i); });
  }
}

template <typename I, int B>
void do_blocks_b(CallCtx &cx)
{
  I n = (I)cx.count;
  SimTag tag(SIM_TAG_SUT);
  parallel_in_blocks_of<B>(n, [&cx](I begin, I end) {
    if (c01_block(cx.h, (long long)begin, (long long)end)) {
      for (I i = begin; i < end; i++)
        visit(cx, (long long)i);
    }
  });
}
template <typename I>
void do_blocks(CallCtx &cx, int block)
{
  switch (block) {
  case 1: do_blocks_b<I, 1>(cx); break;
  case 3: do_blocks_b<I, 3>(cx); break;
  case 16: do_blocks_b<I, 16>(cx); break;
  case 300: do_blocks_b<I, 300>(cx); break;  // more than an unsigned char can hold
  default: do_blocks_b<I, 64>(cx); break;
  }
}

// block sizes and counts at the far end of the index type: the body takes each block as one unit
template <typename I, int B>
void do_wide_b(CallCtx &cx)
{
  I n = (I)cx.count;
  SimTag tag(SIM_TAG_SUT);
  parallel_in_blocks_of<B>(n, [&cx](I begin, I end) {
    c01_wide_block(cx.h, (unsigned long long)begin, (unsigned long long)end, (I)-1 < (I)0);
    sim_work(1);
    c01_body_exit(cx.h);
  });
}
template <typename I>
void do_wide(CallCtx &cx, int block)
{
  if (block == (1 << 30))
    do_wide_b<I, (1 << 30)>(cx);
  else
    do_wide_b<I, 2147483647>(cx);
}

void do_foreach(CallCtx &cx, bool iterators)
{
  std::vector<Elem> v((size_t)(cx.count > 0 ? cx.count : 0));
  Elem *base = v.data();
  SimTag tag(SIM_TAG_SUT);
  if (v.empty()) {
    // &*begin() of an empty vector is not dereferenceable: the documented use is a non-empty range
    return;
  }
  if (iterators)
    parallel_foreach(v.begin(), v.end(), [&cx, base](Elem &e) { visit(cx, (long long)(&e - base)); });
  else
    parallel_foreach(v, [&cx, base](Elem &e) { visit(cx, (long long)(&e - base)); });
}

// a random-access range whose elements are not contiguous in memory: elements are identified by value
void do_foreach_deque(CallCtx &cx)
{
  SimTag tag(SIM_TAG_SUT);  // the range's storage is what the loop must stay inside of
  std::deque<Elem> d;
  for (long long i = 0; i < cx.count; i++)
    d.push_back(Elem{(int)i});
  if (d.empty())
    return;
  parallel_foreach(d.begin(), d.end(), [&cx](Elem &e) { visit(cx, (long long)e.v); });
}

template <typename I>
void dispatch(CallCtx &cx, int api, int block)
{
  if (api == C01_FOR)
    do_for<I>(cx);
  else if (api == C01_BLOCKS_WIDE)
    do_wide<I>(cx, block);
  else
    do_blocks<I>(cx, block);
}

template <typename I>
void dispatch_small(CallCtx &cx, int api, int block)
{
#ifdef C01_SMALL_INDEX_BLOCKS
  if (api == C01_BLOCKS)
    return do_blocks<I>(cx, block);
#endif
  (void)api;
  (void)block;
  do_for<I>(cx);
}

void run_call(const C01Call &c, bool inner, int api, int itype, long long count, int block)
{
  CallCtx cx;
  cx.count = count;
  cx.c = &c;
  cx.inner = inner;
  const bool wide = api == C01_BLOCKS_WIDE;  // no per-index state: the count may be 2^33
  long long nslots = count > 0 && !wide ? count : 1;
  cx.slots = new int[(size_t)nslots]();
  sim_watch(cx.slots, (size_t)(nslots > 1024 ? 1024 : nslots) * sizeof(int), "slots");
  cx.h = c01_call_begin(api, itype, count, block, inner);
  bool aborted = false;
  try {
  if (api == C01_FOREACH_DEQUE) {
    do_foreach_deque(cx);
  } else if (api == C01_FOREACH_CONT || api == C01_FOREACH_IT) {
    do_foreach(cx, api == C01_FOREACH_IT);
  } else {
    switch (itype) {
    case 0: dispatch_small<unsigned char>(cx, api, block); break;
    case 1: dispatch_small<short>(cx, api, block); break;
    case 2: dispatch<int>(cx, api, block); break;
    case 3: dispatch<unsigned>(cx, api, block); break;
    case 4: dispatch<long>(cx, api, block); break;
    case 5: dispatch<long long>(cx, api, block); break;
    case 6: dispatch<unsigned long long>(cx, api, block); break;
    default: dispatch<size_t>(cx, api, block); break;
    }
  }
  } catch (const BodyFailure &) {
    aborted = true;  // the application handles the failure of its own body and carries on
  }
  if (aborted) {
    c01_call_aborted(cx.h);
  } else {
    c01_call_end(cx.h);
    // all effects of the invocations are visible to the caller now
    for (long long i = 0; i < count && !wide; i++)
      c01_slot_check(cx.h, i, cx.slots[i]);
  }
  sim_unwatch(cx.slots);
  delete[] cx.slots;
}

}  // namespace

extern "C" int c01_small_index_blocks()
{
#ifdef C01_SMALL_INDEX_BLOCKS
  return 1;
#else
  return 0;  // parallel_in_blocks_of does not instantiate for unsigned char / short on this tree
#endif
}

extern "C" void c01_run()
{
  const C01Plan *p = c01_plan();
  if (p->init_threads > 0) {
    SimTag t(SIM_TAG_INFRA);
    initTaskingSystem(p->init_threads);
  }
  if (p->lazy_teardown) {
    // first use creates the scheduler; attribute that allocation to the infrastructure like an explicit initialisation
    SimTag t(SIM_TAG_INFRA);
    parallel_for(1, [](int) {});
  }
  sim_phase(1);
  if (p->concurrent) {
    // an application with several threads: each makes its own call, at the same time as the others
    std::vector<std::thread> callers;
    for (int k = 1; k < p->ncalls; k++)
      callers.emplace_back([p, k]() {
        const C01Call &c = p->calls[k];
        run_call(c, false, c.api, c.itype, c.count, c.block);
      });
    run_call(p->calls[0], false, p->calls[0].api, p->calls[0].itype, p->calls[0].count, p->calls[0].block);
    for (auto &th : callers)
      th.join();
  }
  for (int k = 0; k < p->ncalls && !p->concurrent; k++) {
    const C01Call &c = p->calls[k];
    if (c.from_task) {
      // the call is made from inside another parallel loop
      int n = c.from_task_n;
      int which = n - 1;
      SimTag tag(SIM_TAG_SUT);
      parallel_for(n, [&c, which](int i) {
        if (i == which)
          run_call(c, false, c.api, c.itype, c.count, c.block);
        else
          sim_work(2);
      });
    } else {
      if (c.prefill) {
        SimTag tag(SIM_TAG_SUT);
        int nb = c.prefill_block ? p->init_threads - 1 : 0;
        for (int i = 0; i < nb; i++)
          schedule([]() { c01_blocker(); });  // a long-running task, like a TASK-launched AsyncLoop
        c01_wait_blockers(nb);
        for (int i = 0; i < c.prefill; i++)
          schedule([]() { c01_prefill_ran(); });
      }
      run_call(c, false, c.api, c.itype, c.count, c.block);
      c01_release_blockers();
    }
  }
  sim_phase(3);
  if (p->init_threads > 0 || p->lazy_teardown) {
    SimTag t(SIM_TAG_INFRA);
    initTaskingSystem(1);
  }
  sim_phase(4);
}
