#pragma once
// C16 — readXML called by several threads at the same time, each on files of its own. Shared between the halves.
enum { C16M_MAXT = 3, C16M_MAXDOCS = 3 };
struct C16MPlan
{
  int nthreads;
  int ndocs[C16M_MAXT];
};
extern "C" {
const C16MPlan *c16m_plan();
const char *c16m_path(int thread, int doc);
void c16m_document(int thread, int doc, const char *canonical);   // readXML returned a document
void c16m_threw(int thread, int doc, int runtime_error);          // readXML threw (1: std::runtime_error, 0: anything else)
void c16m_run();
}
