// C08 — IntrusivePtr / RefCountedObject. Instrumented half.
#include <new>
#include <thread>
#include <vector>

#include "../rt/sim_api.h"
#include "c08.h"
#include "rkcommon/memory/IntrusivePtr.h"

using rkcommon::memory::IntrusivePtr;
using rkcommon::memory::RefCountedObject;

namespace {

struct Base : public RefCountedObject
{
  int id;
  int payload;
  explicit Base(int i) : id(i), payload(0) {}
  ~Base() override { c08_obj_destroyed(id, payload >= 0); }
};
struct Derived : public Base
{
  int extra;
  explicit Derived(int i) : Base(i), extra(i * 7) {}
};

typedef IntrusivePtr<Base> BP;
typedef IntrusivePtr<Derived> DP;

struct Ctx
{
  int tid;
  bool past_barrier = false;  // no more reads of thread 0's handles (thread 0 may now change them)
  alignas(BP) unsigned char storage[C08_SLOTS][sizeof(BP)];
  bool live[C08_SLOTS];
  DP dslot[2];
  BP &slot(int i) { return *reinterpret_cast<BP *>(storage[i]); }
};

Derived *objs[C08_MAXOBJ];
Ctx *ctxs[1 + C08_MAXTHREADS];

int objid(const Base *p) { return p ? p->id : -1; }

// the source handle an operation names (may be empty)
const BP *source(Ctx &c, const C08Op &op, BP &empty)
{
  if (op.src_kind == 0 && c.live[op.src % C08_SLOTS])
    return &c.slot(op.src % C08_SLOTS);
  if (op.src_kind == 1 && ctxs[0]->live[op.src % C08_SLOTS])
    return &ctxs[0]->slot(op.src % C08_SLOTS);
  return &empty;
}

void do_op(Ctx &c, const C08Op &op)
{
  BP empty;
  int d = op.dst % C08_SLOTS;
  const BP *src = source(c, op, empty);
  // skip operations that are not applicable in the current state (decided from the model so that
  // both halves agree)
  int md = c08_model_slot(c.tid, d);
  bool dst_live = md != -2;
  if (op.src_kind == 1 && c.tid != 0 && c.past_barrier)
    return;
  switch (op.kind) {
  case C08_COPY_CTOR:
  case C08_RAW_CTOR:
    if (dst_live)
      return;
    break;
  case C08_MOVE_CTOR:
  case C08_MOVE_ASSIGN: {
    int s = op.src % C08_SLOTS;
    if (op.src_kind != 0 || s == d || !c.live[s])
      return;
    if (op.kind == C08_MOVE_CTOR ? dst_live : !dst_live)
      return;
    break;
  }
  case C08_CONV_CTOR:
    if (dst_live)
      return;
    break;
  case C08_COPY_ASSIGN:
  case C08_RAW_ASSIGN:
  case C08_DESTROY:
  case C08_COMPARE:
  case C08_COMPARE_MIXED:
    if (!dst_live)
      return;
    break;
  case C08_INCDEC:
    if (!dst_live || md < 0)
      return;
    break;
  case C08_PAYLOAD:
    // one designated writer per object and phase, so the harness itself is race free
    if (!dst_live || md < 0 || c08_payload_owner(md) != c.tid)
      return;
    break;
  case C08_DSLOT_SET:
    break;
  default:
    return;
  }
  SimTag tag(SIM_TAG_SUT);
  int so = objid(src->ptr);
  if (op.kind == C08_CONV_CTOR || op.kind == C08_COMPARE_MIXED)
    so = objid(c.dslot[op.src & 1].ptr);
  c08_pre(c.tid, &op, so);
  int eq = -1, ne = -1, lt = -1, gt = -1;
  switch (op.kind) {
  case C08_COPY_CTOR:
    new (c.storage[d]) BP(*src);
    c.live[d] = true;
    break;
  case C08_MOVE_CTOR:
    new (c.storage[d]) BP(std::move(c.slot(op.src % C08_SLOTS)));
    c.live[d] = true;
    break;
  case C08_CONV_CTOR:
    new (c.storage[d]) BP(c.dslot[op.src & 1]);
    c.live[d] = true;
    break;
  case C08_RAW_CTOR:
    new (c.storage[d]) BP(src->ptr);
    c.live[d] = true;
    break;
  case C08_COPY_ASSIGN:
    c.slot(d) = *src;
    break;
  case C08_MOVE_ASSIGN:
    c.slot(d) = std::move(c.slot(op.src % C08_SLOTS));
    break;
  case C08_RAW_ASSIGN:
    c.slot(d) = src->ptr;
    break;
  case C08_DESTROY:
    c.slot(d).~BP();
    c.live[d] = false;
    break;
  case C08_INCDEC:
    c.slot(d)->refInc();
    sim_point();
    c.slot(d)->refDec();
    break;
  case C08_COMPARE:
    eq = c.slot(d) == *src;
    ne = c.slot(d) != *src;
    lt = c.slot(d) < *src;
    gt = *src < c.slot(d);
    break;
  case C08_COMPARE_MIXED:
    // a handle to the base type against a handle to the derived type, both ways round
    eq = (c.slot(d) == c.dslot[op.src & 1]) && (c.dslot[op.src & 1] == c.slot(d));
    ne = (c.slot(d) != c.dslot[op.src & 1]) || (c.dslot[op.src & 1] != c.slot(d));
    break;
  case C08_PAYLOAD:
    c.slot(d)->payload = c.slot(d)->payload + 1;
    break;
  case C08_DSLOT_SET:
    c.dslot[d & 1] = static_cast<Derived *>(src->ptr);
    break;
  }
  int dst_after = op.kind == C08_DSLOT_SET ? objid(c.dslot[d & 1].ptr) : (c.live[d] ? objid(c.slot(d).ptr) : -2);
  int src_after = -3;
  if (op.kind == C08_MOVE_CTOR || op.kind == C08_MOVE_ASSIGN)
    src_after = objid(c.slot(op.src % C08_SLOTS).ptr);
  c08_post(c.tid, &op, dst_after, src_after, eq, ne, lt, gt);
}

void check_counts()
{
  for (int i = 0; i < c08_plan()->nobj; i++)
    if (c08_obj_alive(i))
      c08_count(i, objs[i]->useCount());
}

void finish_ctx(Ctx &c)
{
  // drop everything the thread still holds
  for (int k = 0; k < 2; k++) {
    C08Op op = {C08_DSLOT_SET, (uint8_t)k, 2, 0, 0};
    do_op(c, op);
  }
  for (int d = 0; d < C08_SLOTS; d++) {
    C08Op op = {C08_DESTROY, (uint8_t)d, 2, 0, 0};
    do_op(c, op);
  }
}

}  // namespace

extern "C" void c08_run()
{
  const C08Plan *p = c08_plan();
  for (int t = 0; t <= p->nthreads; t++) {
    ctxs[t] = new Ctx();
    ctxs[t]->tid = t;
    for (int i = 0; i < C08_SLOTS; i++)
      ctxs[t]->live[i] = false;
  }
  {
    SimTag tag(SIM_TAG_SUT);
    for (int i = 0; i < p->nobj; i++) {
      objs[i] = new Derived(i);
      sim_watch(&objs[i]->payload, sizeof(int), "payload");
      c08_obj_created(i);
    }
  }
  // Fast-forward: the state after 2^32-4 explicit refInc() calls on object 0, reached by writing
  // the counter directly (it follows the vtable pointer) instead of making four billion calls.
  const long long FF = (1LL << 32) - 4;
  bool ff = false;
  if (p->fast_forward) {
    unsigned long long *raw = reinterpret_cast<unsigned long long *>(reinterpret_cast<char *>(static_cast<RefCountedObject *>(objs[0])) + sizeof(void *));
    long long before = objs[0]->useCount();
    *raw += (unsigned long long)FF;
    if (before == 1 && (objs[0]->useCount() & 0xffffffffLL) == ((1 + FF) & 0xffffffffLL)) {
      ff = true;
      c08_fast_forward(0, FF);
    } else {
      *raw -= (unsigned long long)FF;  // unknown layout: leave the object as it was
    }
  }
  Ctx &c0 = *ctxs[0];
  // give thread 0 one handle per object so that later operations have sources
  for (int i = 0; i < p->nobj; i++) {
    SimTag tag(SIM_TAG_SUT);
    C08Op op = {C08_RAW_CTOR, (uint8_t)i, 1, 0, 0};
    // raw construction from the creator's pointer: source is the object itself
    c08_pre(0, &op, i);
    new (c0.storage[i]) BP(objs[i]);
    c0.live[i] = true;
    c08_post(0, &op, objid(c0.slot(i).ptr), -3, -1, -1, -1, -1);
  }
  c08_phase(1);
  for (int k = 0; k < p->nseq1; k++) {
    do_op(c0, p->seq1[k]);
    check_counts();
  }
  c08_phase(2);
  {
    std::vector<std::thread> ths;
    for (int t = 1; t <= p->nthreads; t++)
      ths.emplace_back([=]() {
        Ctx &c = *ctxs[t];
        for (int k = 0; k < p->nops[t - 1]; k++) {
          if (k == p->barrier_at[t - 1]) {
            c.past_barrier = true;
            c08_barrier_arrive(t);
          }
          do_op(c, p->ops[t - 1][k]);
        }
        if (!c.past_barrier) {
          c.past_barrier = true;
          c08_barrier_arrive(t);
        }
        finish_ctx(c);
      });
    // meanwhile the creator may give up its own reference
    for (int i = 0; i < p->nobj; i++)
      if (p->release_creator_during[i] && c08_obj_alive(i)) {
        SimTag tag(SIM_TAG_SUT);
        c08_creator_release_pre(i);
        objs[i]->refDec();
        c08_creator_release_post(i);
      }
    if (p->t0_drops_during && p->nthreads) {
      // once no thread reads thread 0's handles any more, thread 0 gives up its references while the
      // threads still copy and drop theirs: the last reference is then released by one of them
      c08_wait_barriers(p->nthreads);
      finish_ctx(c0);
    }
    for (auto &t : ths)
      t.join();
  }
  c08_phase(3);
  check_counts();
  for (int k = 0; k < p->nseq2; k++) {
    do_op(c0, p->seq2[k]);
    check_counts();
  }
  finish_ctx(c0);
  check_counts();
  if (ff && c08_obj_alive(0)) {
    unsigned long long *raw = reinterpret_cast<unsigned long long *>(reinterpret_cast<char *>(static_cast<RefCountedObject *>(objs[0])) + sizeof(void *));
    *raw -= (unsigned long long)FF;
    c08_fast_forward(0, -FF);
    check_counts();
  }
  for (int i = 0; i < p->nobj; i++)
    if (!p->release_creator_during[i]) {
      SimTag tag(SIM_TAG_SUT);
      c08_creator_release_pre(i);
      objs[i]->refDec();
      c08_creator_release_post(i);
    }
  c08_phase(4);
}
