// C12 — TransactionalBuffer / TransactionalValue. Instrumented half.
#include <stdio.h>
#include <string>
#include <thread>
#include <vector>

#include "../rt/sim_api.h"
#include "c12.h"
#include "rkcommon/containers/TransactionalBuffer.h"
#include "rkcommon/utility/TransactionalValue.h"

namespace {

template <typename T>
struct Codec;
template <>
struct Codec<int>
{
  static int enc(uint32_t v) { return (int)v; }
  static uint32_t dec(const int &x) { return (uint32_t)x; }
};
template <>
struct Codec<std::string>
{
  static std::string enc(uint32_t v)
  {
    char b[64];
    snprintf(b, sizeof b, "item-%08x-payload-beyond-sso", v);
    return b;
  }
  static uint32_t dec(const std::string &s)
  {
    unsigned v = 0xffffffffu;
    if (sscanf(s.c_str(), "item-%08x-payload-beyond-sso", &v) != 1)
      return 0xffffffffu;
    return v;
  }
};

// a trivially copyable element of 48 KiB: a few hundred of them are tens of megabytes
struct Big
{
  uint32_t id;
  unsigned char pad[48 * 1024 - 4];
};
template <>
struct Codec<Big>
{
  static Big enc(uint32_t v)
  {
    Big b;
    b.id = v;
    b.pad[0] = (unsigned char)v;
    b.pad[sizeof b.pad - 1] = (unsigned char)(v >> 8);
    return b;
  }
  static uint32_t dec(const Big &b)
  {
    if (b.pad[0] != (unsigned char)b.id || b.pad[sizeof b.pad - 1] != (unsigned char)(b.id >> 8))
      return 0xffffffffu;
    return b.id;
  }
};

template <typename T>
void do_consumer_op(rkcommon::containers::TransactionalBuffer<T> &buf, int kind)
{
  if (kind == C12_CONSUME) {
    int op = c12_op_begin(C12_CONSUME, 0);
    std::vector<T> got;
    {
      SimTag t(SIM_TAG_SUT);
      got = buf.consume();
    }
    std::vector<uint32_t> ids;
    for (auto &x : got)
      ids.push_back(Codec<T>::dec(x));
    c12_op_end(op, ids.data(), (uint32_t)ids.size(), 0);
  } else if (kind == C12_SIZE) {
    int op = c12_op_begin(C12_SIZE, 0);
    size_t n;
    {
      SimTag t(SIM_TAG_SUT);
      n = buf.size();
    }
    c12_op_end(op, nullptr, 0, n);
  } else {
    int op = c12_op_begin(C12_EMPTY, 0);
    bool e;
    {
      SimTag t(SIM_TAG_SUT);
      e = buf.empty();
    }
    c12_op_end(op, nullptr, 0, e ? 1 : 0);
  }
}

template <typename T>
void run_buf()
{
  const C12BufPlan *p = c12buf_plan();
  rkcommon::containers::TransactionalBuffer<T> *buf;
  {
    SimTag t(SIM_TAG_SUT);
    buf = new rkcommon::containers::TransactionalBuffer<T>();
  }
  sim_watch(buf, sizeof *buf, "TransactionalBuffer");
  std::vector<std::thread> producers;
  for (int pi = 0; pi < p->nproducers; pi++) {
    producers.emplace_back([=]() {
      for (int k = 0; k < p->nitems[pi]; k++) {
        uint32_t v = (uint32_t)((pi + 1) << 16 | (k + 1));
        bool mv = (p->move_mask[pi] >> (k & 15)) & 1;
        int op = c12_op_begin(mv ? C12_PUSH_MOVE : C12_PUSH_COPY, v);
        {
          SimTag t(SIM_TAG_SUT);
          T item = Codec<T>::enc(v);
          if (mv)
            buf->push_back(std::move(item));
          else
            buf->push_back(item);
        }
        c12_op_end(op, nullptr, 0, 0);
        sim_work((uint32_t)p->work[pi]);
      }
    });
  }
  auto consumer = [=]() {
    for (int i = 0; i < p->nconsumer_ops; i++)
      do_consumer_op(*buf, p->consumer_ops[i]);
  };
  if (p->consumer_thread) {
    std::thread c(consumer);
    c.join();
  } else {
    consumer();
  }
  for (auto &t : producers)
    t.join();
  // everything pushed and not yet consumed must come out now
  {
    std::vector<T> got;
    {
      SimTag t(SIM_TAG_SUT);
      got = buf->consume();
    }
    std::vector<uint32_t> ids;
    for (auto &x : got)
      ids.push_back(Codec<T>::dec(x));
    c12_final(ids.data(), (uint32_t)ids.size());
  }
  sim_unwatch(buf);
  {
    SimTag t(SIM_TAG_SUT);
    delete buf;
  }
}

template <typename T>
struct VCodec;
template <>
struct VCodec<int>
{
  static int enc(int idx) { return 1000 + idx; }
  static int dec(const int &x) { return x - 1000; }
};
template <>
struct VCodec<std::string>
{
  static std::string enc(int idx)
  {
    char b[64];
    snprintf(b, sizeof b, "value-%04d-payload-beyond-sso", idx);
    return b;
  }
  static int dec(const std::string &s)
  {
    int v = -1000;
    if (sscanf(s.c_str(), "value-%04d-payload-beyond-sso", &v) != 1)
      return -1000;
    return v;
  }
};

template <typename T>
void run_val()
{
  const C12ValPlan *p = c12val_plan();
  using TV = rkcommon::utility::TransactionalValue<T>;
  TV *tv;
  {
    SimTag t(SIM_TAG_SUT);
    tv = new TV(VCodec<T>::enc(0));
  }
  const int empty_at = p->empty_at;
  auto enc = [empty_at](int i) { return i == empty_at ? T() : VCodec<T>::enc(i); };
  auto dec = [empty_at](const T &x) { return empty_at >= 1 && x == T() ? empty_at : VCodec<T>::dec(x); };
  sim_watch(tv, sizeof *tv, "TransactionalValue");
  std::thread producer([=]() {
    for (int i = 1; i <= p->nassign; i++) {
      c12v_assign_begin(i);
      {
        SimTag t(SIM_TAG_SUT);
        *tv = enc(i);
      }
      c12v_assign_end(i);
      sim_work((uint32_t)p->work);
    }
  });
  auto observe = [&](int kind) {
    SimTag t(SIM_TAG_SUT);
    int before = dec(tv->get());
    int ret = -1;
    int after;
    if (kind == C12V_UPDATE) {
      ret = tv->update() ? 1 : 0;
      after = dec(tv->get());
    } else if (kind == C12V_GET) {
      after = dec(tv->get());
    } else {
      after = dec(tv->ref());
    }
    c12v_observe(kind, before, after, ret);
  };
  for (int i = 0; i < p->nops; i++)
    observe(p->ops[i]);
  producer.join();
  c12v_producer_joined();
  observe(C12V_UPDATE);
  {
    SimTag t(SIM_TAG_SUT);
    c12v_final(dec(tv->get()));
  }
  observe(C12V_UPDATE);
  sim_unwatch(tv);
  {
    SimTag t(SIM_TAG_SUT);
    delete tv;
  }
}

}  // namespace

extern "C" void c12buf_run()
{
  if (c12buf_plan()->payload == 0)
    run_buf<int>();
  else if (c12buf_plan()->payload == 2)
    run_buf<Big>();
  else
    run_buf<std::string>();
}

extern "C" void c12val_run()
{
  if (c12val_plan()->payload == 0)
    run_val<int>();
  else
    run_val<std::string>();
}
