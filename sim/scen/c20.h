#pragma once
#include <stdint.h>
// C20 — trace log and image writers. Shared between the halves.
enum { C20_BEGIN = 0, C20_END = 1, C20_MARKER = 2, C20_COUNTER = 3 };
struct C20TOp
{
  uint8_t kind, name, cat;
  uint32_t value;
};
enum { C20_MAXT = 8, C20_MAXOPS = 24, C20_NAMES = 204, C20_HUGE_NAMES = 3 };  // names 204..206: 40000, 65000 and 100000 characters
struct C20TPlan
{
  unsigned chunk;            // chunk-size knob (8192 = shipped)
  int nthreads;
  int named[C20_MAXT];
  int bulk[C20_MAXT];        // markers recorded before the script (to reach chunk boundaries)
  int nops[C20_MAXT];
  C20TOp ops[C20_MAXT][C20_MAXOPS];
  int process_name;          // 0: null
  int global_api;            // 1: free functions + process-global recorder (one run per child)
  int t0_records;            // thread 0 records too
  int sequential;            // 1: every recording thread is joined before the next starts (thread ids recur)
  int extra_save;            // 1: the log is saved twice in a row at the end, 2: also once before anything is recorded (same file; the last file counts)
  int cxx_locale;            // 1: the application has made the user's locale (decimal comma, digit grouping) the global C++ locale
  int huge_names;            // 1: every event carries a name of 40000-100000 characters (few events make megabytes of log text)
  int many_names;            // 1: event names come from a pool of 200 distinct strings (short and long), not from 4
  int same_names;            // 1: every recording thread calls itself "worker" (a thread pool); threads are then matched by their event sequences
  int leave_open;            // 1: the log is saved while the threads' last begin events are still open (no matching end recorded)
};
struct C20IPlan
{
  int format;                // 0 PPM, 1 PGM, 2 PFM float, 3 PFM vec3f, 4 PFM vec3fa, 5 PFM vec4f
  int w, h;
  int seed;
};
extern "C" {
const C20TPlan *c20t_plan();
const char *c20_name(int i);           // static strings shared by both halves
const char *c20_cat(int i);            // may be null
const char *c20_path();
void c20t_thread_begin(int slot, int named, unsigned long long thread_key);
void c20t_recorded(int slot, int kind, int name, int cat, unsigned long long value);
void c20t_saved();
void c20t_locale_result(int adopted);
void c20trace_run();

const C20IPlan *c20i_plan();
int c20i_count();                      // images written in this run (each by its own thread if > 1)
int c20i_decimal_comma();             // 1: the process has adopted a locale whose decimal point is a comma
void c20i_locale_result(int adopted);
int c20i_one_after_another();          // 1: the images are written one after another by the same thread instead
const C20IPlan *c20i_plan_n(int i);
const char *c20_path_n(int i);
void c20i_written();
void c20img_run();
}
