// C14 — aligned allocation. ASan/UBSan-instrumented half.
#include <cstring>
#include <new>
#include <stdexcept>
#include <initializer_list>
#include <string>
#include <vector>

#include "../io/fault_io.h"
#include "../rt/sim_api.h"
#include "a14.h"
#include "rkcommon/containers/AlignedVector.h"
#include "rkcommon/memory/malloc.h"
#ifdef RKCOMMON_TASKING_TBB
extern "C" size_t scalable_msize(void *);
#endif

using namespace rkcommon;

namespace {

enum { P_NULL_RETURNED = 0, P_HUGE_REQUEST, P_BADALLOC_THROWN, P_REALLOC_GROWTH, P_ZERO_SIZE, P_LENGTH_ERROR, P_FREE_WITH_NEIGHBOURS, P_ALIGN_4096 };

struct Block
{
  unsigned char *p = nullptr;
  size_t size = 0;
  size_t align = 0;
  size_t checked = 0;  // bytes carrying the pattern
};

inline unsigned char pat(int slot, size_t i) { return (unsigned char)(slot * 37 + i * 11 + (i >> 8)); }

// blocks above 1 MiB carry the pattern in their first and last 16 KiB only
inline bool patterned(const Block &b, size_t i) { return b.size <= (1u << 20) || i < 16384 || i >= b.size - 16384; }
void fill(Block &b, int slot)
{
  b.checked = b.size;
  if (b.size <= (1u << 20)) {
    for (size_t i = 0; i < b.size; i++)
      b.p[i] = pat(slot, i);
    return;
  }
  for (size_t i = 0; i < 16384; i++)
    b.p[i] = pat(slot, i);
  for (size_t i = b.size - 16384; i < b.size; i++)
    b.p[i] = pat(slot, i);
}
bool verify(const Block &b, int slot)
{
  if (b.size <= (1u << 20)) {
    for (size_t i = 0; i < b.checked; i++)
      if (b.p[i] != pat(slot, i))
        return false;
    return true;
  }
  for (size_t i = 0; i < 16384; i++)
    if (b.p[i] != pat(slot, i))
      return false;
  for (size_t i = b.size - 16384; i < b.size; i++)
    if (b.p[i] != pat(slot, i))
      return false;
  return true;
}

void raw_history(const A14Plan *p)
{
  Block blocks[A14_SLOTS];
  simalloc_fail_at(p->fail_at);
  for (int k = 0; k < p->nops; k++) {
    const A14Op &op = p->ops[k];
    int s = op.slot % A14_SLOTS;
    Block &b = blocks[s];
    if (op.kind == A14_ALLOC) {
      if (b.p)
        continue;
      size_t size = a14_size(op.size_idx);
      size_t align = (size_t)1 << op.align_log2;
      if (size > (1u << 30))
        a14_probe(P_HUGE_REQUEST);
      if (size == 0)
        a14_probe(P_ZERO_SIZE);
      if (align == 4096)
        a14_probe(P_ALIGN_4096);
      unsigned long f0 = simalloc_stats(1);
      simalloc_window(1);
      void *q = memory::alignedMalloc(size, align);
      simalloc_window(0);
      bool injected = simalloc_stats(1) != f0;
      if (!q) {
        a14_probe(P_NULL_RETURNED);
        continue;
      }
      if (injected) {
        a14_fail("C14:pointer-returned-although-allocation-failed", "the underlying allocation failed but alignedMalloc returned a non-null pointer");
        return;
      }
      if ((uintptr_t)q % align != 0) {
        a14_fail("C14:misaligned-pointer", "alignedMalloc returned a pointer that is not a multiple of the alignment");
        return;
      }
      b.p = (unsigned char *)q;
      b.size = size;
      b.align = align;
      fill(b, s);  // usable for the full size (ASan checks the extent)
    } else if (op.kind == A14_FREE) {
      if (!b.p)
        continue;
      int others = 0;
      for (int j = 0; j < A14_SLOTS; j++)
        others += j != s && blocks[j].p;
      if (!verify(b, s)) {
        a14_fail("C14:block-corrupted", "a live block lost its contents");
        return;
      }
      memory::alignedFree(b.p);
      b = Block();
      if (others)
        a14_probe(P_FREE_WITH_NEIGHBOURS);
      for (int j = 0; j < A14_SLOTS; j++)
        if (blocks[j].p && !verify(blocks[j], j)) {
          a14_fail("C14:free-corrupted-neighbour", "alignedFree changed the contents of another live block");
          return;
        }
    } else {
      for (int j = 0; j < A14_SLOTS; j++)
        if (blocks[j].p && !verify(blocks[j], j)) {
          a14_fail("C14:block-corrupted", "a live block lost its contents");
          return;
        }
    }
  }
  for (int j = 0; j < A14_SLOTS; j++)
    if (blocks[j].p) {
      if (!verify(blocks[j], j)) {
        a14_fail("C14:block-corrupted", "a live block lost its contents");
        return;
      }
      memory::alignedFree(blocks[j].p);
    }
  memory::alignedFree(nullptr);  // releasing nothing is allowed
}

template <int N>
struct Blob
{
  unsigned char b[N];
  static Blob make(int v)
  {
    Blob x;
    for (int i = 0; i < N; i++)
      x.b[i] = (unsigned char)(v * 13 + i * 7);
    return x;
  }
  bool operator==(const Blob &o) const { return std::memcmp(b, o.b, N) == 0; }
};

// element types that are not plain bytes: one that owns heap memory, and a value class in the style of JSON libraries
// (constructible from a list of itself), for which "copy" and "wrap in a one-element list" are different things
struct StrElem
{
  std::string s;
  static StrElem make(int v)
  {
    StrElem e;
    e.s = "element-" + std::to_string(v) + "-longer-than-the-small-string-buffer";
    return e;
  }
  bool operator==(const StrElem &o) const { return s == o.s; }
};
struct ListValue
{
  int v = 0;
  std::vector<ListValue> items;
  ListValue() = default;
  ListValue(int x) : v(x) {}
  ListValue(std::initializer_list<ListValue> l) : v(-1), items(l) {}
  static ListValue make(int x) { return ListValue(x); }
  bool operator==(const ListValue &o) const { return v == o.v && items == o.items; }
};

template <typename T>
bool same(const containers::AlignedVector<T> &v, const std::vector<T> &m)
{
  if (v.size() != m.size())
    return false;
  for (size_t i = 0; i < m.size(); i++)
    if (!(v[i] == m[i]))
      return false;
  return true;
}

template <typename T>
void vector_history(const A14Plan *p)
{
  containers::AlignedVector<T> v, other;
  std::vector<T> m, mother;
  simalloc_fail_at(p->fail_at);
  for (int k = 0; k < p->nops; k++) {
    const A14Op &op = p->ops[k];
    T val = T::make(op.val);
    size_t n = (size_t)op.n;
    const T *before = v.data();
    unsigned long f0 = simalloc_stats(1);
    bool threw = false;
    simalloc_window(1);
    try {
      switch (op.kind) {
      case A14_V_PUSH: v.push_back(val); break;
      case A14_V_RESIZE: v.resize(n); break;
      case A14_V_RESIZE_VAL: v.resize(n, val); break;
      case A14_V_RESERVE: v.reserve(n); break;
      case A14_V_SHRINK: v.shrink_to_fit(); break;
      case A14_V_ASSIGN: v.assign(n, val); break;
      case A14_V_INSERT: v.insert(v.begin() + (v.empty() ? 0 : n % (v.size() + 1)), val); break;
      case A14_V_ERASE:
        if (!v.empty())
          v.erase(v.begin() + n % v.size());
        break;
      case A14_V_SWAP: v.swap(other); break;
      case A14_V_CLEAR: v.clear(); break;
      case A14_V_POP:
        if (!v.empty())
          v.pop_back();
        break;
      case A14_V_COPY: {
        containers::AlignedVector<T> c(v);
        if (c.data() && !memory::isAligned((void *)c.data(), 64)) {
          simalloc_window(0);
          a14_fail("C14:vector-data-misaligned", "data() of a copy-constructed AlignedVector is not 64-byte aligned");
          return;
        }
        other = c;
        mother = m;
        break;
      }
      }
    } catch (const std::bad_alloc &) {
      threw = true;
    }
    simalloc_window(0);
    bool injected = simalloc_stats(1) != f0;
    if (threw && !injected) {
      a14_fail("C14:bad_alloc-without-failure", "an AlignedVector operation threw bad_alloc although no allocation failed");
      return;
    }
    // (std::vector::shrink_to_fit is a non-binding request: libstdc++ catches the failure and
    // leaves the vector as it is)
    if (injected && !threw && op.kind != A14_V_SHRINK) {
      a14_fail("C14:allocation-failure-swallowed", "an allocation failed inside an AlignedVector operation but no bad_alloc was thrown");
      return;
    }
    if (threw) {
      a14_probe(P_BADALLOC_THROWN);
      // narrow relaxation after an injected failure: the operation may have failed, nothing may be
      // misaligned or corrupted; continue from whatever state the vector is in
      m.assign(v.begin(), v.end());
      mother.assign(other.begin(), other.end());
    } else {
      switch (op.kind) {
      case A14_V_PUSH: m.push_back(val); break;
      case A14_V_RESIZE: m.resize(n); break;
      case A14_V_RESIZE_VAL: m.resize(n, val); break;
      case A14_V_RESERVE: m.reserve(n); break;
      case A14_V_SHRINK: break;
      case A14_V_ASSIGN: m.assign(n, val); break;
      case A14_V_INSERT: m.insert(m.begin() + (m.empty() ? 0 : n % (m.size() + 1)), val); break;
      case A14_V_ERASE:
        if (!m.empty())
          m.erase(m.begin() + n % m.size());
        break;
      case A14_V_SWAP: m.swap(mother); break;
      case A14_V_CLEAR: m.clear(); break;
      case A14_V_POP:
        if (!m.empty())
          m.pop_back();
        break;
      case A14_V_COPY: break;
      }
    }
    if (v.data() != before && before != nullptr && v.data() != nullptr)
      a14_probe(P_REALLOC_GROWTH);
    if (v.data() && !memory::isAligned((void *)v.data(), 64)) {
      a14_fail("C14:vector-data-misaligned", "data() of an AlignedVector is not 64-byte aligned after an operation that can reallocate");
      return;
    }
    if (other.data() && !memory::isAligned((void *)other.data(), 64)) {
      a14_fail("C14:vector-data-misaligned", "data() of an AlignedVector is not 64-byte aligned after swap/copy");
      return;
    }
    // value-initialised elements of the code under test vs the model: resize(n) zero-fills both
    if (!same(v, m) || !same(other, mother)) {
      a14_fail("C14:vector-contents-differ", "AlignedVector contents differ from std::vector after the same operations (elements did not survive)");
      return;
    }
  }
}

void edge_requests()
{
  containers::aligned_allocator<Blob<16>> a;
  try {
    auto *p = a.allocate(a.max_size() + 1);
    (void)p;
    a14_fail("C14:overflowing-request-accepted", "allocate(max_size()+1) returned instead of throwing length_error");
    return;
  } catch (const std::length_error &) {
    a14_probe(P_LENGTH_ERROR);
  } catch (const std::exception &) {
    a14_fail("C14:overflowing-request-wrong-exception", "allocate(max_size()+1) threw something else than length_error");
    return;
  }
  if (a.allocate(0) != nullptr) {
    a14_fail("C14:allocate-zero", "allocate(0) returned a non-null pointer");
    return;
  }
  // a request that cannot be satisfied: bad_alloc, not a wild pointer
  try {
    auto *p = a.allocate(a.max_size());
    p[0].b[0] = 1;
    a.deallocate(p, a.max_size());
  } catch (const std::bad_alloc &) {
    a14_probe(P_BADALLOC_THROWN);
  }
  // byte counts around 2^31 and 2^32 (the simulated machine refuses them): the allocator must ask
  // its back end for at least the bytes the caller asked for
  {
    static const unsigned long long totals[] = {(1ULL << 31) + 64, (1ULL << 32) - 64, 1ULL << 32, (1ULL << 32) + 64, (1ULL << 32) + 4096, (1ULL << 33) + 128};
    for (unsigned long long bytes : totals) {
      size_t n = (size_t)(bytes / sizeof(Blob<16>));
      a14_probe(P_HUGE_REQUEST);
      Blob<16> *p = nullptr;
      simalloc_window(1);
      try {
        p = a.allocate(n);
      } catch (const std::bad_alloc &) {
        a14_probe(P_BADALLOC_THROWN);
      }
      simalloc_window(0);
#ifdef RKCOMMON_TASKING_TBB
      if (p) {
        if (scalable_msize(p) < bytes) {
          a14_fail("C14:block-smaller-than-requested", "allocate(n) returned a block that is smaller than n elements");
          return;
        }
        p[0] = Blob<16>::make(1);
        p[n - 1] = Blob<16>::make(2);
        a.deallocate(p, n);
      }
#else
      if (p) {
        a14_fail("C14:block-smaller-than-requested", "allocate(n) returned a pointer although its back end granted no block of that size");
        return;
      }
      if (simalloc_last_size() < bytes) {
        a14_fail("C14:block-smaller-than-requested", "allocate(n) asked its back end for fewer bytes than n elements need");
        return;
      }
#endif
    }
  }
  auto *q = a.allocate(3);
  if (!memory::isAligned(q, 64)) {
    a14_fail("C14:misaligned-pointer", "aligned_allocator::allocate returned a pointer that is not 64-byte aligned");
    return;
  }
  q[2] = Blob<16>::make(1);
  a.deallocate(q, 3);
}

}  // namespace

extern "C" void a14_run()
{
  const A14Plan *p = a14_plan();
  simio_reset();
  switch (p->mode) {
  case 0: raw_history(p); break;
  case 1:
    switch (p->elem) {
    case 0: vector_history<Blob<1>>(p); break;
    case 1: vector_history<Blob<4>>(p); break;
    case 2: vector_history<Blob<12>>(p); break;
    case 3: vector_history<Blob<16>>(p); break;
    case 5: vector_history<StrElem>(p); break;
    case 6: vector_history<ListValue>(p); break;
    default: vector_history<Blob<64>>(p); break;
    }
    break;
  default: edge_requests(); break;
  }
  simalloc_fail_at(-1);
  a14_done(simalloc_stats(0), simalloc_stats(1));
}
