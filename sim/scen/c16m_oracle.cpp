// C16 — readXML called by several threads at the same time. Oracle half: generates the documents (valid ones with their expected
// tree, and truncated / damaged copies), writes them to files before the run, and judges each call: a valid document must come
// back as its tree, a damaged one as a document or a std::runtime_error; reads outside a call's own buffer are the arena's to see
// (the reader's buffer is an arena block with red zones).
#include <fcntl.h>
#include <stdio.h>
#include <string.h>
#include <string>
#include <unistd.h>

#include "../rt/sim_api.h"
#include "c16m.h"

namespace {
C16MPlan plan;
struct Doc
{
  std::string text;
  std::string expect;  // canonical form of the tree (valid documents only)
  int damage;          // 0 valid, 1 truncated, 2 one byte replaced
  bool judged;
};
Doc *docs[C16M_MAXT][C16M_MAXDOCS];
char paths[C16M_MAXT][C16M_MAXDOCS][256];
enum { P_VALID_READ = 0, P_DAMAGED_THREW, P_DAMAGED_PARSED, P_TWO_READERS };
const char *probe_names[] = {"valid_document_read_back", "damaged_document_rejected", "damaged_document_still_parsed", "two_or_more_threads_reading", nullptr};
const char *no_faults[] = {nullptr};

const char *NAMES[] = {"node", "a", "Transform", "x1", "mesh_data"};
const char *VALUES[] = {"", "1", "0.5 0.25", "some value", "a/b.c"};
const char *TEXTS[] = {"", "text", "1 2 3", "two words"};

void gen_node(std::string &text, std::string &expect, int depth)
{
  const char *name = NAMES[sim_plan(5)];
  text += "<";
  text += name;
  expect += name;
  expect += '{';
  // properties in key order (the reader keeps them in a map)
  int np = (int)sim_plan(3);
  const char *keys[] = {"k1", "k2"};
  for (int i = 0; i < np; i++) {
    const char *v = VALUES[sim_plan(5)];
    bool dq = sim_plan(2) != 0;
    text += " ";
    text += keys[i];
    text += dq ? "=\"" : "='";
    text += v;
    text += dq ? "\"" : "'";
    expect += keys[i];
    expect += '=';
    expect += v;
    expect += ';';
  }
  expect += "}[";
  int nchild = depth < 2 ? (int)sim_plan(3) : 0;
  const char *txt = TEXTS[sim_plan(4)];
  if (nchild == 0 && !*txt && sim_plan(2)) {
    text += "/>";
    expect += "]()";
    return;
  }
  text += ">";
  if (sim_plan(3) == 0)
    text += "\n  ";
  if (*txt) {
    text += txt;
    expect += txt;
  }
  expect += "](";
  for (int i = 0; i < nchild; i++) {
    if (sim_plan(4) == 0)
      text += "<!-- a comment -->";
    gen_node(text, expect, depth + 1);
    if (sim_plan(3) == 0)
      text += "\n";
  }
  expect += ')';
  text += "</";
  text += name;
  text += ">";
}

void reset()
{
  for (int t = 0; t < C16M_MAXT; t++)
    for (int i = 0; i < C16M_MAXDOCS; i++) {
      if (docs[t][i]) {
        unlink(paths[t][i]);
        delete docs[t][i];
      }
      docs[t][i] = nullptr;
    }
  memset(&plan, 0, sizeof plan);
}
void do_plan(int)
{
  plan.nthreads = 2 + (int)sim_plan(2);
  sim_set_tso(sim_plan(4) == 0);
  for (int t = 0; t < plan.nthreads; t++) {
    plan.ndocs[t] = 1 + (int)sim_plan(C16M_MAXDOCS);
    for (int i = 0; i < plan.ndocs[t]; i++) {
      Doc *d = new Doc();
      d->judged = false;
      if (sim_plan(3) == 0)
        d->text += "<?xml version=\"1.0\"?>\n";
      // empty lines in front of the document body make positions (and line numbers) differ between the files
      if (sim_plan(3) == 0)
        d->text += std::string((size_t)(1 + sim_plan(40)), '\n');
      int ntop = 1 + (int)sim_plan(2);
      for (int k = 0; k < ntop; k++) {
        gen_node(d->text, d->expect, 0);
        d->text += "\n";
      }
      unsigned k = sim_plan(5);
      d->damage = k < 2 ? 0 : (k < 4 ? 1 : 2);
      if (d->damage == 1)
        d->text.resize((size_t)sim_plan((uint32_t)d->text.size()));
      if (d->damage == 2) {
        static const char repl[] = {'<', '"', '>', '/', '\'', '=', '!', 'x'};
        d->text[(size_t)sim_plan((uint32_t)d->text.size())] = repl[sim_plan(8)];
      }
      docs[t][i] = d;
      snprintf(paths[t][i], sizeof paths[t][i], "/verif/build/scratch/c16m_%07d_%d_%d.xml", (int)getpid(), t, i);
      int fd = open(paths[t][i], O_WRONLY | O_CREAT | O_TRUNC, 0600);
      if (fd >= 0) {
        ssize_t w = write(fd, d->text.data(), d->text.size());
        (void)w;
        close(fd);
      }
    }
  }
  sim_probe(P_TWO_READERS);
  sim_set_step_cap(3000000);
}
void check()
{
  for (int t = 0; t < plan.nthreads; t++)
    for (int i = 0; i < plan.ndocs[t]; i++) {
      if (docs[t][i] && !docs[t][i]->judged && !sim_failed())
        sim_fail("C16:call-did-not-finish", "readXML of document %d of thread %d neither returned nor threw", i, t);
      unlink(paths[t][i]);
    }
}
int stuck(int deadlock, char *cls, size_t n)
{
  if (deadlock) {
    snprintf(cls, n, "C16:deadlock");
    return 1;
  }
  return 0;
}
void describe(char *buf, size_t n)
{
  int k = snprintf(buf, n, "{\"threads\": [");
  for (int t = 0; t < plan.nthreads; t++) {
    k += snprintf(buf + k, n - k, "%s[", t ? "," : "");
    for (int i = 0; i < plan.ndocs[t] && k < (int)n - 100; i++)
      k += snprintf(buf + k, n - k, "%s\"%s document of %zu bytes\"", i ? "," : "",
                    docs[t][i]->damage == 0 ? "valid" : (docs[t][i]->damage == 1 ? "truncated" : "damaged"), docs[t][i]->text.size());
    k += snprintf(buf + k, n - k, "]");
  }
  snprintf(buf + k, n - k, "]}");
}
const SimScenario scen = {"c16mt", "C16", LANE_DEBUG, reset, do_plan, c16m_run, check, stuck, describe, no_faults, probe_names, 0, 0};
SimRegistrar reg(&scen);
}  // namespace

extern "C" {
const C16MPlan *c16m_plan() { return &plan; }
const char *c16m_path(int thread, int doc) { return paths[thread][doc]; }
void c16m_document(int thread, int doc, const char *canonical)
{
  SimOracleScope os;
  Doc *d = docs[thread][doc];
  sim_event(160, (uint64_t)thread, (uint64_t)doc);
  d->judged = true;
  if (d->damage == 0) {
    if (d->expect != canonical)
      sim_fail("C16:tree-differs", "thread %d document %d: readXML returned %s, the document is %s", thread, doc, canonical, d->expect.c_str());
    else
      sim_probe(P_VALID_READ);
  } else
    sim_probe(P_DAMAGED_PARSED);
}
void c16m_threw(int thread, int doc, int runtime_error)
{
  SimOracleScope os;
  Doc *d = docs[thread][doc];
  sim_event(161, (uint64_t)thread, (uint64_t)doc);
  d->judged = true;
  if (!runtime_error)
    sim_fail("C16:exception-other-than-runtime_error", "thread %d document %d: readXML threw something that is not a std::runtime_error", thread, doc);
  else if (d->damage == 0)
    sim_fail("C16:valid-document-rejected", "thread %d document %d: readXML rejected a valid document", thread, doc);
  else
    sim_probe(P_DAMAGED_THREW);
}
}
