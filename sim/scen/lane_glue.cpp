// compiled into every libsut_<lane>.so
#include <fstream>
#include <future>
#include <mutex>
#include <sstream>
#include <string>
#include <thread>
#include <vector>

#ifndef RKSIM_LANE_NAME
#error "RKSIM_LANE_NAME"
#endif

#if RKSIM_LANE_BIT == 32
extern "C" void *scalable_aligned_malloc(size_t, size_t);
extern "C" void scalable_aligned_free(void *);
void rksim_warm_tbbmalloc()
{
  void *a = scalable_aligned_malloc(100, 64), *b = scalable_aligned_malloc(1 << 20, 4096);
  scalable_aligned_free(a);
  scalable_aligned_free(b);
}
#endif

extern "C" const char *rksim_lane_name() { return RKSIM_LANE_NAME; }
extern "C" unsigned rksim_lane_bit() { return RKSIM_LANE_BIT; }

// Touch lazily initialised state of libstdc++/glibc once, outside any run, so that nothing that
// outlives a run gets allocated from a per-run arena.
extern "C" void rksim_warmup()
{
  {
    std::ofstream f("/dev/null");
    f << 1 << ' ' << 2.5 << ' ' << 3.25f << ' ' << 123456789012ULL << ' ' << -7L << ' ' << "s" << std::string("t")
      << 'c' << true << (void *)&f << std::endl;
    f.precision(3);
    f << 1e-9 << std::hex << 255 << std::dec << 1u;
  }
  {
    std::stringstream ss;
    ss << 1 << 2.0 << "x";
    int i;
    ss >> i;
    (void)ss.str();
  }
  {
    std::once_flag fl;
    std::call_once(fl, [] {});
  }
  {
    std::packaged_task<int()> pt([] { return 1; });
    auto fu = pt.get_future();
    std::thread t(std::move(pt));
    t.join();
    (void)fu.get();
  }
  {
    std::promise<std::string> p;
    auto f = p.get_future();
    p.set_value("x");
    (void)f.get();
  }
#if RKSIM_LANE_BIT == 32
  {
    // one-time initialisation of the real tbbmalloc
    rksim_warm_tbbmalloc();
  }
#endif
  (void)std::to_string(1.5);
  (void)std::this_thread::get_id();
  try {
    throw std::runtime_error("warm");
  } catch (const std::exception &) {
  }
}
