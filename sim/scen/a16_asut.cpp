// C16 — XML reader. ASan/UBSan-instrumented half.
#include <string>

#include "../io/fault_io.h"
#include "../rt/sim_api.h"
#include "a16.h"
#include "rkcommon/xml/XML.h"

namespace {
void canon(const rkcommon::xml::Node &n, std::string &out)
{
  out += "<";
  out += n.name;
  for (auto &p : n.properties) {  // std::map: sorted by name
    out += " ";
    out += p.first;
    out += "=[";
    out += p.second;
    out += "]";
  }
  out += ">{";
  out += n.content;
  out += "}";
  for (auto &c : n.child)
    canon(c, out);
  out += "</>";
}
}  // namespace

extern "C" void a16_run()
{
  size_t n;
  const unsigned char *bytes = a16_bytes(&n);
  // the device holds exactly the file's bytes (heap block of exactly n bytes)
  unsigned char *dev = new unsigned char[n ? n : 1];
  if (n)
    memcpy(dev, bytes, n);
  simio_reset();
  // a process that has already read (and mostly rejected) other files; it has 8 descriptors
  simio_set_handle_limit(8);
  for (int i = 0; i < a16_pre_reads(); i++) {
    long cut = a16_pre_cut(i);
    unsigned char *part = new unsigned char[cut ? cut : 1];
    if (cut)
      memcpy(part, bytes, (size_t)cut);
    simio_set_file("/sim/doc.xml", part, (size_t)cut);
    try {
      rkcommon::xml::XMLDoc d = rkcommon::xml::readXML("/sim/doc.xml");
      a16_pre_outcome(0);
    } catch (const std::runtime_error &) {
      a16_pre_outcome(1);
    } catch (...) {
      a16_pre_outcome(2);
    }
    delete[] part;
    if (i >= 24 && a16_soak()) {
      // ... and in between the process keeps reading the complete document
      simio_set_file("/sim/doc.xml", dev, n);
      try {
        rkcommon::xml::XMLDoc doc = rkcommon::xml::readXML("/sim/doc.xml");
        std::string c;
        for (auto &ch : doc.child)
          canon(ch, c);
        a16_mid_outcome(0, c.c_str());
      } catch (const std::runtime_error &e) {
        a16_mid_outcome(1, e.what());
      } catch (...) {
        a16_mid_outcome(2, "");
      }
    }
  }
  simio_set_file("/sim/doc.xml", dev, n);
  long arg = -1;
  int f = a16_fault(&arg);
  if (f == A16_FAULT_SHORT_READ)
    simio_short_read_at(arg);
  if (f == A16_FAULT_OPEN)
    simio_fail_open(1);
  try {
    rkcommon::xml::XMLDoc doc = rkcommon::xml::readXML("/sim/doc.xml");
    std::string c;
    for (auto &ch : doc.child)
      canon(ch, c);
    a16_outcome(0, c.c_str());
  } catch (const std::runtime_error &e) {
    a16_outcome(1, e.what());
  } catch (const std::exception &e) {
    a16_outcome(2, e.what());
  } catch (...) {
    a16_outcome(3, "");
  }
  delete[] dev;
}
