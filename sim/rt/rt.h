// rksim runtime internals (uninstrumented; lives in the executable)
#pragma once
#include <pthread.h>
#include <stddef.h>
#include <stdint.h>
#include <stdlib.h>
#include <string.h>

#include "sim_api.h"

namespace rksim {

// ---------------------------------------------------------------------------------------------
// malloc-backed containers (the runtime must never call operator new from a simulated thread:
// operator new is the per-run arena there)
template <typename T>
struct Vec
{
  T *d = nullptr;
  size_t n = 0, cap = 0;
  void push(const T &v)
  {
    if (n == cap) {
      cap = cap ? cap * 2 : 16;
      d = (T *)realloc((void *)d, cap * sizeof(T));
    }
    d[n++] = v;
  }
  T &operator[](size_t i) { return d[i]; }
  const T &operator[](size_t i) const { return d[i]; }
  void clear() { n = 0; }
  void release()
  {
    free((void *)d);
    d = nullptr;
    n = cap = 0;
  }
  T &back() { return d[n - 1]; }
  void pop() { --n; }
  void erase_at(size_t i)
  {
    memmove((void *)(d + i), (void *)(d + i + 1), (n - i - 1) * sizeof(T));
    --n;
  }
};

// open addressing map uintptr -> uint32 (value+1 stored; 0 = empty)
struct PtrMap
{
  uintptr_t *k = nullptr;
  uint32_t *v = nullptr;
  size_t cap = 0, n = 0;
  static inline size_t h(uintptr_t x)
  {
    x ^= x >> 33;
    x *= 0xff51afd7ed558ccdULL;
    x ^= x >> 33;
    return (size_t)x;
  }
  void clear()
  {
    if (cap) {
      memset(v, 0, cap * sizeof(uint32_t));
    }
    n = 0;
  }
  void grow()
  {
    size_t ncap = cap ? cap * 2 : 64;
    uintptr_t *nk = (uintptr_t *)calloc(ncap, sizeof(uintptr_t));
    uint32_t *nv = (uint32_t *)calloc(ncap, sizeof(uint32_t));
    for (size_t i = 0; i < cap; i++)
      if (v[i]) {
        size_t j = h(k[i]) & (ncap - 1);
        while (nv[j])
          j = (j + 1) & (ncap - 1);
        nk[j] = k[i];
        nv[j] = v[i];
      }
    free(k);
    free(v);
    k = nk;
    v = nv;
    cap = ncap;
  }
  // returns pointer to value slot (value is stored +1; 0 means "just inserted")
  uint32_t *slot(uintptr_t key)
  {
    if ((n + 1) * 2 > cap)
      grow();
    size_t j = h(key) & (cap - 1);
    while (v[j] && k[j] != key)
      j = (j + 1) & (cap - 1);
    if (!v[j]) {
      k[j] = key;
      n++;
    }
    return &v[j];
  }
  bool find(uintptr_t key, uint32_t *out) const
  {
    if (!cap)
      return false;
    size_t j = h(key) & (cap - 1);
    while (v[j]) {
      if (k[j] == key) {
        *out = v[j] - 1;
        return true;
      }
      j = (j + 1) & (cap - 1);
    }
    return false;
  }
};

// ---------------------------------------------------------------------------------------------
enum OpKind : uint8_t
{
  OP_NONE = 0,
  OP_START,
  OP_READ,
  OP_WRITE,
  OP_VREAD,
  OP_VWRITE,
  OP_ALOAD,
  OP_ASTORE,
  OP_ARMW,
  OP_FENCE,
  OP_LOCK,
  OP_TRYLOCK,
  OP_UNLOCK,
  OP_COND_WAIT,
  OP_COND_BLOCK,
  OP_COND_SIGNAL,
  OP_COND_BCAST,
  OP_SEM_WAIT,
  OP_SEM_POST,
  OP_JOIN,
  OP_SPAWN,
  OP_YIELD,
  OP_ONCE,
  OP_FUTEX_WAIT,
  OP_FUTEX_BLOCK,
  OP_FUTEX_WAKE,
  OP_EXIT,
  OP_USER,
  OP_CLOCK,
  OP_DETACH,
  OP_RWLOCK,
  OP__COUNT
};

static const int HB_MAXT = 64;
struct VC
{
  uint32_t c[HB_MAXT];
  void zero() { memset(c, 0, sizeof c); }
  void join(const VC &o)
  {
    for (int i = 0; i < HB_MAXT; i++)
      if (o.c[i] > c[i])
        c[i] = o.c[i];
  }
};

struct Thread
{
  int id;
  int slot;  // stack slot: recycled after the thread was joined, so thread ids (pthread_t) recur as they do with glibc
  pthread_t real;
  volatile int go;
  enum State : uint8_t { RUNNABLE, FINISHED } state;
  OpKind op;
  uintptr_t op_addr;
  int op_target;  // JOIN: thread id
  void *(*fn)(void *);
  void *arg;
  void *ret;
  bool detached, joined_real;
  bool cond_signaled, spurious_ok, futex_woken;
  uintptr_t stack_lo, stack_hi;
  uint64_t nsteps;
  uint64_t nblocked;
  uint32_t consec;
  int64_t prio;
  int tag_stack[16];
  int tag_depth;
  uintptr_t last_pc;
  VC vc;
};

enum RunResult : int
{
  RES_OK = 0,
  RES_VIOLATION = 1,
  RES_DEADLOCK = 2,
  RES_CAP = 3,
  RES_CRASH = 4,
  RES_TIMEOUT = 5,
  RES_DIVERGED = 6
};

enum Strategy : int
{
  STRAT_WALK = 0,
  STRAT_PCT = 1,
  STRAT_DELAY = 2,
  STRAT_REPLAY = 3
};

struct Rng
{
  uint64_t s;
  static inline uint64_t mix(uint64_t z)
  {
    z += 0x9e3779b97f4a7c15ULL;
    z = (z ^ (z >> 30)) * 0xbf58476d1ce4e5b9ULL;
    z = (z ^ (z >> 27)) * 0x94d049bb133111ebULL;
    return z ^ (z >> 31);
  }
  uint64_t next()
  {
    s += 0x9e3779b97f4a7c15ULL;
    uint64_t z = s;
    z = (z ^ (z >> 30)) * 0xbf58476d1ce4e5b9ULL;
    z = (z ^ (z >> 27)) * 0x94d049bb133111ebULL;
    return z ^ (z >> 31);
  }
  uint32_t below(uint32_t n) { return n <= 1 ? 0 : (uint32_t)(next() % n); }
};

static const int MAX_FAULT_KINDS = 16;
static const int MAX_PROBES = 32;
static const int MAX_VIOL = 4;

struct Violation
{
  char cls[96];
  char detail[400];
  int fatal;
};

struct EventRec
{
  uint32_t code;
  int32_t tid;
  uint64_t a, b;
};

struct Sim
{
  // configuration for the run
  const SimScenario *scen;
  int tier;
  uint64_t seed;
  int strategy;
  uint32_t stay_num;   // walk: stay probability stay_num/1000
  int granularity;     // 0: sync+atomic+volatile, 1: plus plain shared accesses
  int pct_depth;
  uint64_t pct_points[4];
  uint64_t pct_est;
  uint32_t demote_after;
  int delay_budget;
  uint64_t step_cap;
  int cores;
  int affinity;   // CPUs in the process affinity mask (0: all of `cores`)
  int spurious;
  int clock_jumps;
  int clock_ties;  // 1: readings taken by different threads may be equal (two cores reading the clock in the same instant)
  bool replaying;       // decisions come from the recorded lists
  bool pin_cpu;

  // state of the run
  volatile int active;
  bool fair;
  int phase;
  Thread **threads;     // by id
  int nthreads;
  int nlive;
  Thread *cur;
  uint64_t steps, switches, branch_points;
  uint64_t seq;
  uint64_t ev_hash, ilv_hash;
  Rng rng_plan, rng_run;
  Vec<uint32_t> plan_dec, run_dec;          // recorded decisions
  Vec<uint32_t> plan_in, run_in;            // replay input
  size_t plan_pos, run_pos;
  bool diverged;
  Vec<EventRec> events;
  uint64_t fault_fired[MAX_FAULT_KINDS];
  uint64_t fault_offered[MAX_FAULT_KINDS];
  uint64_t probes[MAX_PROBES];
  Violation viol[MAX_VIOL];
  int nviol;
  uint64_t incidental;      // shadow hits on infrastructure blocks (never alarm)
  char incidental_first[200];
  volatile int done;        // futex: 0 running, else 1+RunResult
  int result;
  bool hb_on;
  bool hb_overflow;
  uint64_t clock_ns;
  uint64_t races_checked;
  char notes[2048];
  size_t notes_len;
  int64_t lowest_prio;
  bool tso;                 // x86-TSO store buffering for this run
  uint64_t tso_stores, tso_delays;
  Vec<int> free_slots;
  int slots_used;
  Vec<uint32_t> switch_log;  // triples: step, from, to (first 200 switches)
};

extern Sim g;
extern __thread Thread *tl_self;
extern __thread int tl_rt_depth;

// sched.cpp
void sched_point(Thread *me, OpKind k, uintptr_t addr);
void pick_next(Thread *me);
void abort_run(int res) __attribute__((noreturn));
uint32_t run_decide(uint32_t n);  // uniform run-time decision, recorded
void add_violation(int fatal, const char *cls, const char *detail);
Thread *spawn_thread(void *(*fn)(void *), void *arg, Thread *parent);
void thread_finish(Thread *t);
Thread *find_thread_by_real(pthread_t p);
void sim_reset_run_state();
void sim_start_run();            // controller: create T0, hand the baton, wait for done
void sim_join_real_threads();
void sim_real_join_and_recycle(Thread *t);
static inline bool in_sim() { return tl_self != nullptr && g.active; }
long raw_syscall6(long n, long a, long b, long c, long d, long e, long f);

// sync model (interpose.cpp)
void sync_reset();

// arena.cpp
void arena_init();
void arena_reset();
bool arena_contains(uintptr_t a);
void arena_check_access(Thread *me, uintptr_t a, size_t n, bool write, uintptr_t pc);
size_t arena_used();
const char *arena_describe(uintptr_t a, char *buf, size_t n);

// hb.cpp
void hb_reset();
void hb_access(Thread *me, uintptr_t a, size_t n, bool write, uintptr_t pc);
void hb_thread_start(Thread *child, Thread *parent);
void hb_acquire(Thread *me, VC *from);
void hb_release(Thread *me, VC *to);       // to := me.vc ; me.vc[me]++
void hb_release_join(Thread *me, VC *to);  // to |= me.vc ; me.vc[me]++
void hb_atomic(Thread *me, uintptr_t addr, int mo, int kind);  // kind: 0 load 1 store 2 rmw
void hb_fence(Thread *me, int mo);
void hb_auto_watch(uintptr_t base, size_t n, int tag);
bool hb_any_watch();

// tso.cpp
void tso_reset();
void tso_capture(Thread *me);
void tso_apply_view(Thread *me, uintptr_t a, size_t n);
void tso_store_hook(Thread *me, uintptr_t a, size_t n);
void tso_unbuffered_store(Thread *me, uintptr_t a, size_t n, bool shared_memory);
void tso_atomic_store(Thread *me, uintptr_t a, size_t n, const void *val, bool seq_cst);
void tso_rmw_done(Thread *me, uintptr_t a, size_t n);
void tso_flush_all(Thread *t);
void tso_background();

// image.cpp
void image_snapshot();
void image_restore();
const char *image_symbolize(uintptr_t pc, char *buf, size_t n);  // controller thread only

}  // namespace rksim
