// x86-TSO store buffering for the code under test (a per-run option drawn in the plan).
//
// The instrumented code performs its own loads and stores right after the hook returns, and a hook
// is the only place where another thread can be scheduled. Physical memory always holds the most
// recently *executed* store (what a sequentially consistent run would hold). For bytes that have
// unflushed buffered stores the runtime additionally keeps G, the globally visible value, and one
// FIFO store buffer per simulated thread. Right before an instrumented load the bytes it touches are
// temporarily set to the loading thread's view (its own newest buffered store, else G) and put back
// at that thread's next hook. A store's value is captured at the thread's next hook (the hook of a
// plain/volatile store does not see the value). Buffers drain
// at locked operations, fences, seq_cst stores, blocking/synchronisation calls and thread exit, and
// otherwise one entry at a time when the decision stream says so (decision 0 = drain now, which is
// the sequentially consistent behaviour; so shrinking moves towards SC).
// Only store->load reordering is modelled (that is all TSO allows). Stores by uninstrumented code
// (libc memcpy) and range writes > 16 bytes are visible at once.
#include <stdio.h>

#include "rt.h"

namespace rksim {

static const int TSO_CAP = 12;
static const uint64_t TSO_MAX_AGE = 400;  // scheduling points an entry may stay buffered

struct SBEntry
{
  uintptr_t addr;
  uint8_t n;
  uint8_t bytes[16];
  uint64_t step;
};
struct TsoThread
{
  SBEntry buf[TSO_CAP];
  int head, count;
  bool pending;
  uintptr_t p_addr;
  uint8_t p_n;
  uint8_t p_old[16];
  int nrestore;
  uintptr_t r_addr[64];
  uint8_t r_val[64];
};
struct GByte
{
  uint8_t g;     // globally visible value
  uint8_t last;  // value of the most recently executed (instrumented) store
  uint16_t refs; // unflushed buffered stores covering this byte
};

static Vec<GByte> gbytes;
static PtrMap gmap;
static size_t tracked = 0;  // bytes with refs > 0
static Vec<TsoThread *> tthreads;  // by thread id

void tso_reset()
{
  for (size_t i = 0; i < tthreads.n; i++)
    free(tthreads[i]);
  tthreads.clear();
  gbytes.clear();
  gmap.clear();
  tracked = 0;
}

static TsoThread *tt(Thread *t)
{
  while (tthreads.n <= (size_t)t->id)
    tthreads.push(nullptr);
  if (!tthreads[(size_t)t->id])
    tthreads[(size_t)t->id] = (TsoThread *)calloc(1, sizeof(TsoThread));
  return tthreads[(size_t)t->id];
}

static inline GByte *gfind(uintptr_t a)
{
  uint32_t idx;
  if (!gmap.find(a, &idx))
    return nullptr;
  return &gbytes[idx];
}
static GByte *gget(uintptr_t a)
{
  uint32_t *s = gmap.slot(a);
  if (*s == 0) {
    GByte b = {0, 0, 0};
    gbytes.push(b);
    *s = (uint32_t)gbytes.n;
  }
  return &gbytes[*s - 1];
}

static void push_entry(Thread *t, uintptr_t addr, int n, const uint8_t *newb, const uint8_t *oldb);
static void flush_one(Thread *t);

// value of byte a in the view of thread t (a is tracked)
static inline uint8_t view_byte(TsoThread *x, uintptr_t a, const GByte *gb)
{
  if (x)
    for (int k = x->count - 1; k >= 0; k--) {
      const SBEntry &e = x->buf[(x->head + k) % TSO_CAP];
      if (a - e.addr < e.n)
        return e.bytes[a - e.addr];
    }
  return gb->g;
}

// before a load: make physical memory show thread me's view of [a, a+n); undone at me's next hook
void tso_apply_view(Thread *me, uintptr_t a, size_t n)
{
  if (!tracked || n > 64)
    return;
  TsoThread *x = tt(me);
  for (size_t i = 0; i < n; i++) {
    GByte *gb = gfind(a + i);
    if (gb && gb->refs) {
      uint8_t want = view_byte(x, a + i, gb);
      uint8_t have = *(volatile uint8_t *)(a + i);
      // physical memory is expected to hold the most recently executed instrumented store; if it
      // does not, an uninstrumented store (libc memcpy, ...) came later: leave it alone
      if (want != have && have == gb->last && x->nrestore < 64) {
        x->r_addr[x->nrestore] = a + i;
        x->r_val[x->nrestore] = have;
        x->nrestore++;
        *(volatile uint8_t *)(a + i) = want;
      }
    }
  }
}

static inline void undo_view(TsoThread *x)
{
  for (int i = x->nrestore - 1; i >= 0; i--)
    *(volatile uint8_t *)x->r_addr[i] = x->r_val[i];
  x->nrestore = 0;
}

// the store announced by me's previous hook has executed by now: move it into the buffer
void tso_capture(Thread *me)
{
  if ((size_t)me->id >= tthreads.n)
    return;
  TsoThread *x = tthreads[(size_t)me->id];
  if (!x)
    return;
  if (x->nrestore)
    undo_view(x);
  if (!x->pending)
    return;
  x->pending = false;
  uint8_t nb[16];
  memcpy(nb, (const void *)x->p_addr, x->p_n);
  push_entry(me, x->p_addr, x->p_n, nb, x->p_old);
}

static void push_entry(Thread *t, uintptr_t addr, int n, const uint8_t *newb, const uint8_t *oldb)
{
  TsoThread *x = tt(t);
  if (x->count == TSO_CAP)
    flush_one(t);
  SBEntry &e = x->buf[(x->head + x->count) % TSO_CAP];
  e.addr = addr;
  e.n = (uint8_t)n;
  memcpy(e.bytes, newb, (size_t)n);
  e.step = g.steps;
  x->count++;
  for (int i = 0; i < n; i++) {
    GByte *gb = gget(addr + (uintptr_t)i);
    if (gb->refs == 0) {
      gb->g = oldb[i];  // what everybody else keeps seeing
      tracked++;
    }
    gb->last = newb[i];
    gb->refs++;
  }
  g.tso_stores++;
}

static void flush_one(Thread *t)
{
  TsoThread *x = tthreads[(size_t)t->id];
  SBEntry &e = x->buf[x->head];
  for (int i = 0; i < e.n; i++) {
    GByte *gb = gfind(e.addr + (uintptr_t)i);
    gb->g = e.bytes[i];
    if (--gb->refs == 0) {
      // the last buffered store has reached memory. Physical memory holds the most recently executed
      // store, which may be an older one in memory order (another thread's buffer drained later).
      volatile uint8_t *ph = (volatile uint8_t *)(e.addr + (uintptr_t)i);
      if (gb->g != gb->last && *ph == gb->last)
        *ph = gb->g;
      tracked--;
    }
  }
  x->head = (x->head + 1) % TSO_CAP;
  x->count--;
}

void tso_flush_all(Thread *t)
{
  if ((size_t)t->id >= tthreads.n || !tthreads[(size_t)t->id])
    return;
  tso_capture(t);
  TsoThread *x = tthreads[(size_t)t->id];
  while (x->count)
    flush_one(t);
}

// a store that is not buffered (range write, private stack slot) is about to execute: it must not
// overtake this thread's earlier buffered stores to the same bytes (and, for shared memory, to any)
void tso_unbuffered_store(Thread *me, uintptr_t a, size_t n, bool shared_memory)
{
  if ((size_t)me->id >= tthreads.n)
    return;
  TsoThread *x = tthreads[(size_t)me->id];
  if (!x || !x->count)
    return;
  bool need = shared_memory;
  for (int k = 0; k < x->count && !need; k++) {
    const SBEntry &e = x->buf[(x->head + k) % TSO_CAP];
    if (e.addr < a + n && a < e.addr + e.n)
      need = true;
  }
  if (need)
    tso_flush_all(me);
}

// hook of a plain / volatile store (value unknown yet): called after the scheduling point, right
// before the store executes
void tso_store_hook(Thread *me, uintptr_t a, size_t n)
{
  if (n > 16)
    return;  // range writes are visible at once
  TsoThread *x = tt(me);
  x->pending = true;
  x->p_addr = a;
  x->p_n = (uint8_t)n;
  memcpy(x->p_old, (const void *)a, n);
}

// an atomic store whose value is known: relaxed/release stores are buffered, seq_cst ones drain
// (the caller has drained this thread's buffer for seq_cst)
void tso_atomic_store(Thread *me, uintptr_t a, size_t n, const void *val, bool seq_cst)
{
  TsoThread *x = tt(me);
  if (x->nrestore)
    undo_view(x);
  uint8_t oldb[16];
  memcpy(oldb, (const void *)a, n);
  memcpy((void *)a, val, n);
  if (seq_cst) {
    for (size_t i = 0; i < n; i++) {
      GByte *gb = gfind(a + i);
      if (gb && gb->refs) {
        gb->g = ((const uint8_t *)val)[i];
        gb->last = gb->g;
      }
    }
    return;
  }
  push_entry(me, a, (int)n, (const uint8_t *)val, oldb);
}

// a locked read-modify-write has just been performed on physical memory that showed G (the caller
// drained this thread's buffer and applied the view): it is global at once
void tso_rmw_done(Thread *me, uintptr_t a, size_t n)
{
  TsoThread *x = tt(me);
  // the bytes of the location must not be put back to their pre-view content
  for (int i = 0; i < x->nrestore;) {
    if (x->r_addr[i] - a < n) {
      x->r_addr[i] = x->r_addr[x->nrestore - 1];
      x->r_val[i] = x->r_val[x->nrestore - 1];
      x->nrestore--;
    } else
      i++;
  }
  if (!tracked)
    return;
  for (size_t i = 0; i < n; i++) {
    GByte *gb = gfind(a + i);
    if (gb && gb->refs) {
      gb->g = *(volatile uint8_t *)(a + i);
      gb->last = gb->g;
    }
  }
}

// called at every scheduling point before the next thread is chosen: let buffers drain
void tso_background()
{
  for (int i = 0; i < g.nthreads; i++) {
    Thread *t = g.threads[i];
    if ((size_t)t->id >= tthreads.n)
      break;
    TsoThread *x = tthreads[(size_t)t->id];
    if (!x || !x->count)
      continue;
    if (g.fair) {
      while (x->count)
        flush_one(t);
      continue;
    }
    if (g.steps - x->buf[x->head].step > TSO_MAX_AGE) {
      flush_one(t);
      continue;
    }
    // decision: 0 = drain the oldest entry now (sequentially consistent), 1 = keep it buffered
    uint32_t keep;
    if (g.replaying) {
      keep = 0;
      if (g.run_pos < g.run_in.n)
        keep = g.run_in[g.run_pos] & 1;
      g.run_pos++;
    } else {
      keep = g.rng_run.below(16) != 0;
    }
    g.run_dec.push(keep);
    if (!keep)
      flush_one(t);
    else
      g.tso_delays++;
  }
}

}  // namespace rksim
