// Our own implementation of the ThreadSanitizer ABI. The code under test is compiled with
// -fsanitize=thread (so gcc inserts these calls before every memory access, atomic and volatile
// operation) but is never linked against libtsan: each hook is a scheduling / checking point of
// the simulator.
#include <stdint.h>

#include "rt.h"

using namespace rksim;

#define PC ((uintptr_t)__builtin_return_address(0))

namespace {

// lines of thread stacks that another thread has touched: accesses to them by their owner are
// scheduling points too (parallel_for's task object lives on the caller's stack)
PtrMap shared_stack_lines;
bool any_shared_stack = false;

inline bool on_own_stack(Thread *me, uintptr_t a) { return a - me->stack_lo < (me->stack_hi - me->stack_lo); }
const uintptr_t STACK_BASE = 0x7d0000000000ULL;
const uintptr_t STACK_END = STACK_BASE + (2048ULL * 1024) * 2048;

inline void plain_access(uintptr_t a, size_t n, bool write, uintptr_t pc)
{
  Thread *me = tl_self;
  if (!me || !g.active)
    return;
  me->last_pc = pc;
  if (g.tso)
    tso_capture(me);
  bool own = on_own_stack(me, a);
  if (own) {
    bool shared = false;
    if (any_shared_stack) {
      uint32_t dummy;
      shared = shared_stack_lines.find(a >> 6, &dummy);
    }
    if (!shared) {
      if (g.tso) {
        if (write)
          tso_unbuffered_store(me, a, n, false);
        else
          tso_apply_view(me, a, n);
      }
      return;
    }
  } else if (a - STACK_BASE < STACK_END - STACK_BASE) {
    // another simulated thread's stack
    uint32_t *s = shared_stack_lines.slot(a >> 6);
    *s = 1;
    any_shared_stack = true;
  }
  if (g.granularity >= 1)
    sched_point(me, write ? OP_WRITE : OP_READ, a);
  if (arena_contains(a))
    arena_check_access(me, a, n, write, pc);
  hb_access(me, a, n, write, pc);
  if (g.tso) {
    if (write && n > 16)
      tso_unbuffered_store(me, a, n, true);
    else if (write)
      tso_store_hook(me, a, n);
    else
      tso_apply_view(me, a, n);
  }
}

inline void volatile_access(uintptr_t a, size_t n, bool write, uintptr_t pc)
{
  Thread *me = tl_self;
  if (!me || !g.active)
    return;
  me->last_pc = pc;
  sched_point(me, write ? OP_VWRITE : OP_VREAD, a);
  if (arena_contains(a))
    arena_check_access(me, a, n, write, pc);
  // x86 + compiler barrier model enkiTS is written against: volatile load = acquire, store = release
  hb_atomic(me, a, write ? __ATOMIC_RELEASE : __ATOMIC_ACQUIRE, write ? 1 : 0);
  if (g.tso) {
    if (write)
      tso_store_hook(me, a, n);
    else
      tso_apply_view(me, a, n);
  }
}

inline Thread *atomic_pre(uintptr_t a, size_t n, OpKind k, uintptr_t pc, bool write)
{
  Thread *me = tl_self;
  if (!me || !g.active)
    return nullptr;
  me->last_pc = pc;
  sched_point(me, k, a);
  if (arena_contains(a))
    arena_check_access(me, a, n, write, pc);
  return me;
}

}  // namespace

namespace rksim {
void hooks_reset()
{
  shared_stack_lines.clear();
  any_shared_stack = false;
}
}  // namespace rksim

extern "C" {

void __tsan_init(void) {}
void __tsan_func_entry(void *) {}
void __tsan_func_exit(void) {}
void __tsan_ignore_thread_begin(void) {}
void __tsan_ignore_thread_end(void) {}

#define RW(N)                                                                                  \
  void __tsan_read##N(void *a) { plain_access((uintptr_t)a, N, false, PC); }                   \
  void __tsan_write##N(void *a) { plain_access((uintptr_t)a, N, true, PC); }                   \
  void __tsan_unaligned_read##N(void *a) { plain_access((uintptr_t)a, N, false, PC); }         \
  void __tsan_unaligned_write##N(void *a) { plain_access((uintptr_t)a, N, true, PC); }         \
  void __tsan_volatile_read##N(void *a) { volatile_access((uintptr_t)a, N, false, PC); }       \
  void __tsan_volatile_write##N(void *a) { volatile_access((uintptr_t)a, N, true, PC); }       \
  void __tsan_unaligned_volatile_read##N(void *a) { volatile_access((uintptr_t)a, N, false, PC); } \
  void __tsan_unaligned_volatile_write##N(void *a) { volatile_access((uintptr_t)a, N, true, PC); } \
  void __tsan_read##N##_pc(void *a, void *) { plain_access((uintptr_t)a, N, false, PC); }      \
  void __tsan_write##N##_pc(void *a, void *) { plain_access((uintptr_t)a, N, true, PC); }
RW(1)
RW(2)
RW(4)
RW(8)
RW(16)

void __tsan_read_range(void *a, unsigned long n) { plain_access((uintptr_t)a, n, false, PC); }
void __tsan_write_range(void *a, unsigned long n) { plain_access((uintptr_t)a, n, true, PC); }
void __tsan_read_range_pc(void *a, unsigned long n, void *) { plain_access((uintptr_t)a, n, false, PC); }
void __tsan_write_range_pc(void *a, unsigned long n, void *) { plain_access((uintptr_t)a, n, true, PC); }
void __tsan_vptr_update(void **vptr, void *) { plain_access((uintptr_t)vptr, 8, true, PC); }
void __tsan_vptr_read(void **vptr) { plain_access((uintptr_t)vptr, 8, false, PC); }

#define RMW_PRE(a, T)                                                              \
  Thread *me = atomic_pre((uintptr_t)(a), sizeof(T), OP_ARMW, PC, true);               \
  if (me && g.tso)                                                                     \
    tso_apply_view(me, (uintptr_t)(a), sizeof(T));
#define RMW_POST(a, T)                                                                 \
  if (me && g.tso)                                                                     \
    tso_rmw_done(me, (uintptr_t)(a), sizeof(T));

#define RMW_OP(BITS, T, NAME, BUILTIN)                                                 \
  T __tsan_atomic##BITS##_##NAME(volatile T *a, T v, int mo)                           \
  {                                                                                    \
    RMW_PRE(a, T)                                                                      \
    if (me)                                                                            \
      hb_atomic(me, (uintptr_t)a, mo, 2);                                              \
    T r = BUILTIN(a, v, __ATOMIC_SEQ_CST);                                             \
    RMW_POST(a, T)                                                                     \
    return r;                                                                          \
  }

#define ATOMICS(BITS, T)                                                               \
  T __tsan_atomic##BITS##_load(const volatile T *a, int mo)                            \
  {                                                                                    \
    Thread *me = atomic_pre((uintptr_t)a, sizeof(T), OP_ALOAD, PC, false);             \
    if (me && g.tso)                                                                   \
      tso_apply_view(me, (uintptr_t)a, sizeof(T));                                     \
    T v = __atomic_load_n(a, __ATOMIC_SEQ_CST);                                        \
    if (me)                                                                            \
      hb_atomic(me, (uintptr_t)a, mo, 0);                                              \
    return v;                                                                          \
  }                                                                                    \
  void __tsan_atomic##BITS##_store(volatile T *a, T v, int mo)                         \
  {                                                                                    \
    Thread *me = atomic_pre((uintptr_t)a, sizeof(T), OP_ASTORE, PC, true);             \
    if (me)                                                                            \
      hb_atomic(me, (uintptr_t)a, mo, 1);                                              \
    if (me && g.tso) {                                                                 \
      if (mo == __ATOMIC_SEQ_CST)                                                      \
        tso_flush_all(me);                                                             \
      tso_atomic_store(me, (uintptr_t)a, sizeof(T), &v, mo == __ATOMIC_SEQ_CST);       \
      return;                                                                          \
    }                                                                                  \
    __atomic_store_n(a, v, __ATOMIC_SEQ_CST);                                          \
  }                                                                                    \
  RMW_OP(BITS, T, exchange, __atomic_exchange_n)                                       \
  RMW_OP(BITS, T, fetch_add, __atomic_fetch_add)                                       \
  RMW_OP(BITS, T, fetch_sub, __atomic_fetch_sub)                                       \
  RMW_OP(BITS, T, fetch_and, __atomic_fetch_and)                                       \
  RMW_OP(BITS, T, fetch_or, __atomic_fetch_or)                                         \
  RMW_OP(BITS, T, fetch_xor, __atomic_fetch_xor)                                       \
  RMW_OP(BITS, T, fetch_nand, __atomic_fetch_nand)                                     \
  int __tsan_atomic##BITS##_compare_exchange_strong(volatile T *a, T *c, T v, int mo, int fmo) \
  {                                                                                    \
    RMW_PRE(a, T)                                                                      \
    int ok = __atomic_compare_exchange_n(a, c, v, 0, __ATOMIC_SEQ_CST, __ATOMIC_SEQ_CST); \
    if (me)                                                                            \
      hb_atomic(me, (uintptr_t)a, ok ? mo : fmo, ok ? 2 : 0);                          \
    RMW_POST(a, T)                                                                     \
    return ok;                                                                         \
  }                                                                                    \
  int __tsan_atomic##BITS##_compare_exchange_weak(volatile T *a, T *c, T v, int mo, int fmo) \
  {                                                                                    \
    RMW_PRE(a, T)                                                                      \
    int ok = __atomic_compare_exchange_n(a, c, v, 0, __ATOMIC_SEQ_CST, __ATOMIC_SEQ_CST); \
    if (me)                                                                            \
      hb_atomic(me, (uintptr_t)a, ok ? mo : fmo, ok ? 2 : 0);                          \
    RMW_POST(a, T)                                                                     \
    return ok;                                                                         \
  }                                                                                    \
  T __tsan_atomic##BITS##_compare_exchange_val(volatile T *a, T c, T v, int mo, int fmo) \
  {                                                                                    \
    RMW_PRE(a, T)                                                                      \
    T expected = c;                                                                    \
    int ok = __atomic_compare_exchange_n(a, &expected, v, 0, __ATOMIC_SEQ_CST, __ATOMIC_SEQ_CST); \
    if (me)                                                                            \
      hb_atomic(me, (uintptr_t)a, ok ? mo : fmo, ok ? 2 : 0);                          \
    RMW_POST(a, T)                                                                     \
    return expected;                                                                   \
  }

ATOMICS(8, uint8_t)
ATOMICS(16, uint16_t)
ATOMICS(32, uint32_t)
ATOMICS(64, uint64_t)

void __tsan_atomic_thread_fence(int mo)
{
  Thread *me = tl_self;
  if (!me || !g.active)
    return;
  sched_point(me, OP_FENCE, 0);
  hb_fence(me, mo);
}
void __tsan_atomic_signal_fence(int) {}

}  // extern "C"
