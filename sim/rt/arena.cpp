// Per-run bump arena at a fixed address with an ASan-style shadow (1 byte per 8 bytes).
// Nothing is reused within a run: every freed block stays in quarantine, so an instrumented
// access to freed / red-zone memory and every second delete is caught.
#include <errno.h>
#include <new>
#include <stdio.h>
#include <sys/mman.h>
#include <unistd.h>

#include "rt.h"

namespace rksim {

static const uintptr_t ARENA_BASE = 0x7e0000000000ULL;
static const size_t ARENA_SIZE = 512ULL << 20;
static const uintptr_t SHADOW_BASE = 0x7e8000000000ULL;
static const size_t REDZONE = 32;

enum : uint8_t { SH_LIVE = 0, SH_UNALLOC = 0xF1, SH_RED = 0xF2, SH_FREED = 0xF3 };

struct Block
{
  uintptr_t base;   // payload start
  size_t size;
  int tag;
  int alloc_tid, free_tid;
  uintptr_t alloc_pc, free_pc;
  bool freed;
};

static uint8_t *shadow;
static size_t bump;        // offset of next free byte
static size_t high_water;  // highest offset ever initialised in shadow since last reset
static Vec<Block> blocks;
static bool inited = false;

void arena_init()
{
  if (inited)
    return;
  void *p = mmap((void *)ARENA_BASE, ARENA_SIZE, PROT_READ | PROT_WRITE,
                 MAP_PRIVATE | MAP_ANONYMOUS | MAP_NORESERVE | MAP_FIXED_NOREPLACE, -1, 0);
  void *s = mmap((void *)SHADOW_BASE, ARENA_SIZE / 8, PROT_READ | PROT_WRITE,
                 MAP_PRIVATE | MAP_ANONYMOUS | MAP_NORESERVE | MAP_FIXED_NOREPLACE, -1, 0);
  if (p != (void *)ARENA_BASE || s != (void *)SHADOW_BASE) {
    fprintf(stderr, "rksim: cannot map arena at fixed address\n");
    _exit(2);
  }
  shadow = (uint8_t *)SHADOW_BASE;
  inited = true;
  bump = 0;
  high_water = 0;
}

void arena_reset()
{
  arena_init();
  // everything below the bump pointer has been given a shadow value; unallocated memory beyond
  // it is recognised by offset >= bump. The bytes themselves are wiped so that an out-of-bounds or
  // stale read sees the same content in every run, whatever ran before in this process.
  if (bump > high_water)
    high_water = bump;
  if (high_water) {
    size_t n = high_water + 4096 < ARENA_SIZE ? high_water + 4096 : ARENA_SIZE;
    memset((void *)ARENA_BASE, 0xCD, n);
  }
  high_water = 0;
  bump = 0;
  blocks.clear();
}

size_t arena_used() { return bump; }
bool arena_contains(uintptr_t a) { return a - ARENA_BASE < ARENA_SIZE; }

static inline bool arena_on() { return tl_self != nullptr && g.active && tl_rt_depth == 0; }

static void *arena_alloc(size_t n, size_t align, uintptr_t pc)
{
  if (align < 16)
    align = 16;
  size_t start = bump + REDZONE;
  start = (start + align - 1) & ~(align - 1);
  size_t end = start + n;
  size_t end8 = (end + 7) & ~(size_t)7;
  size_t next = end8 + REDZONE;
  if (next > ARENA_SIZE) {
    add_violation(1, "rt-limit:arena-exhausted", "per-run arena exhausted");
    abort_run(RES_CAP);
  }
  // shadow: [bump,start) red, [start,end) live (+partial), [end8,next) red
  memset(shadow + (bump >> 3), SH_RED, (start - bump) >> 3);
  memset(shadow + (start >> 3), SH_LIVE, (end - start) >> 3);
  if (end & 7)
    shadow[end >> 3] = (uint8_t)(end & 7);
  memset(shadow + (end8 >> 3), SH_RED, REDZONE >> 3);
  // deterministic, non-zero fill so reads of uninitialised heap memory repeat exactly
  memset((void *)(ARENA_BASE + start), 0xAB, end8 - start);
  memset((void *)(ARENA_BASE + bump), 0xFA, start - bump);      // red zones have a fixed content too
  memset((void *)(ARENA_BASE + end8), 0xFA, REDZONE);
  Block b;
  b.base = ARENA_BASE + start;
  b.size = n;
  Thread *me = tl_self;
  b.tag = (me->tag_depth > 0 && me->tag_depth <= 16) ? me->tag_stack[me->tag_depth - 1] : SIM_TAG_HARNESS;
  b.alloc_tid = me->id;
  b.free_tid = -1;
  b.alloc_pc = pc;
  b.free_pc = 0;
  b.freed = false;
  blocks.push(b);
  bump = next;
  hb_auto_watch(b.base, n, b.tag);
  return (void *)b.base;
}

static Block *find_block(uintptr_t a)
{
  // blocks are sorted by base (bump allocation)
  size_t lo = 0, hi = blocks.n;
  while (lo < hi) {
    size_t mid = (lo + hi) / 2;
    if (blocks[mid].base <= a)
      lo = mid + 1;
    else
      hi = mid;
  }
  if (lo == 0)
    return blocks.n ? &blocks[0] : nullptr;
  Block *b = &blocks[lo - 1];
  // nearest block: a might be in the red zone before the next block
  if (a >= b->base + b->size + REDZONE && lo < blocks.n)
    return &blocks[lo];
  return b;
}

const char *arena_describe(uintptr_t a, char *buf, size_t n)
{
  Block *b = find_block(a);
  if (!b) {
    snprintf(buf, n, "addr %#lx in no block", (unsigned long)a);
    return buf;
  }
  snprintf(buf, n, "addr %#lx = block[%#lx,+%zu)%+ld tag=%d alloc(t%d pc=%#lx)%s free(t%d pc=%#lx)",
           (unsigned long)a, (unsigned long)b->base, b->size, (long)(a - b->base), b->tag, b->alloc_tid,
           (unsigned long)b->alloc_pc, b->freed ? "" : " not", b->free_tid, (unsigned long)b->free_pc);
  return buf;
}

static void arena_free(void *p, uintptr_t pc)
{
  uintptr_t a = (uintptr_t)p;
  Block *b = find_block(a);
  Thread *me = tl_self;
  char d[400], bd[300];
  if (!b || b->base != a) {
    snprintf(d, sizeof d, "delete of a pointer that is not a block start: %s", arena_describe(a, bd, sizeof bd));
    add_violation(0, "heap:bad-delete", d);
    return;
  }
  if (b->freed) {
    snprintf(d, sizeof d, "second delete by t%d pc=%#lx: %s", me ? me->id : -1, (unsigned long)pc,
             arena_describe(a, bd, sizeof bd));
    if (b->tag == SIM_TAG_SUT)
      add_violation(0, "heap:double-delete", d);
    else {
      if (!g.incidental++)
        snprintf(g.incidental_first, sizeof g.incidental_first, "%s", d);
    }
    return;
  }
  b->freed = true;
  b->free_tid = me ? me->id : -1;
  b->free_pc = pc;
  size_t start = b->base - ARENA_BASE;
  size_t end8 = (start + b->size + 7) & ~(size_t)7;
  memset(shadow + (start >> 3), SH_FREED, (end8 - start) >> 3);
  // poison the payload of blocks a property talks about, so stale reads (also by uninstrumented
  // code) misbehave visibly; infrastructure blocks keep their contents (a stale read there is an
  // incidental observation, counted but never alarmed)
  if (b->tag == SIM_TAG_SUT)
    memset((void *)b->base, 0xDD, b->size);
}

void arena_check_access(Thread *me, uintptr_t a, size_t n, bool write, uintptr_t pc)
{
  size_t off = a - ARENA_BASE;
  if (off >= ARENA_SIZE)
    return;
  uint8_t s;
  if (off + n > bump) {
    s = SH_UNALLOC;
  } else {
    s = shadow[off >> 3];
    if (s == SH_LIVE) {
      size_t last = off + n - 1;
      uint8_t s2 = shadow[last >> 3];
      if (s2 == SH_LIVE)
        return;
      if (s2 < 8 && (last & 7) < s2)
        return;
      s = s2;
    } else if (s < 8) {
      if ((off & 7) + n <= s)
        return;
      s = SH_RED;
    }
  }
  Block *b = find_block(a);
  char d[400], bd[300];
  const char *what = s == SH_FREED ? "use-after-free" : (s == SH_UNALLOC ? "wild" : "out-of-bounds");
  snprintf(d, sizeof d, "%s %s of %zu bytes by t%d pc=%#lx: %s", what, write ? "write" : "read", n, me->id,
           (unsigned long)pc, arena_describe(a, bd, sizeof bd));
  if (b && b->tag == SIM_TAG_SUT) {
    char cls[64];
    snprintf(cls, sizeof cls, "heap:%s", what);
    add_violation(0, cls, d);
  } else {
    if (!g.incidental++)
      snprintf(g.incidental_first, sizeof g.incidental_first, "%s", d);
  }
}

static void *(*real_malloc_aligned)(size_t, size_t) = nullptr;

void *rt_alloc(size_t n, size_t align, uintptr_t pc)
{
  if (arena_on())
    return arena_alloc(n, align, pc);
  void *p = nullptr;
  if (align <= 16) {
    p = malloc(n ? n : 1);
  } else if (posix_memalign(&p, align, n ? n : 1) != 0) {
    p = nullptr;
  }
  return p;
}

void rt_free(void *p, uintptr_t pc)
{
  if (!p)
    return;
  if (arena_contains((uintptr_t)p)) {
    if (inited)
      arena_free(p, pc);
    return;
  }
  // memory from the real heap: code under test must not really free memory that existed before
  // the run (the image of the library is restored for the next run and may point at it)
  if (tl_self != nullptr && g.active && tl_rt_depth == 0)
    return;
  free(p);
}

}  // namespace rksim

using namespace rksim;

#ifndef RKSIM_NO_ARENA
#define RA ((uintptr_t)__builtin_return_address(0))

void *operator new(size_t n)
{
  void *p = rt_alloc(n, 16, RA);
  if (!p)
    throw std::bad_alloc();
  return p;
}
void *operator new[](size_t n)
{
  void *p = rt_alloc(n, 16, RA);
  if (!p)
    throw std::bad_alloc();
  return p;
}
void *operator new(size_t n, const std::nothrow_t &) noexcept { return rt_alloc(n, 16, RA); }
void *operator new[](size_t n, const std::nothrow_t &) noexcept { return rt_alloc(n, 16, RA); }
void *operator new(size_t n, std::align_val_t a)
{
  void *p = rt_alloc(n, (size_t)a, RA);
  if (!p)
    throw std::bad_alloc();
  return p;
}
void *operator new[](size_t n, std::align_val_t a)
{
  void *p = rt_alloc(n, (size_t)a, RA);
  if (!p)
    throw std::bad_alloc();
  return p;
}
void *operator new(size_t n, std::align_val_t a, const std::nothrow_t &) noexcept { return rt_alloc(n, (size_t)a, RA); }
void *operator new[](size_t n, std::align_val_t a, const std::nothrow_t &) noexcept
{
  return rt_alloc(n, (size_t)a, RA);
}
void operator delete(void *p) noexcept { rt_free(p, RA); }
void operator delete[](void *p) noexcept { rt_free(p, RA); }
void operator delete(void *p, size_t) noexcept { rt_free(p, RA); }
void operator delete[](void *p, size_t) noexcept { rt_free(p, RA); }
void operator delete(void *p, std::align_val_t) noexcept { rt_free(p, RA); }
void operator delete[](void *p, std::align_val_t) noexcept { rt_free(p, RA); }
void operator delete(void *p, size_t, std::align_val_t) noexcept { rt_free(p, RA); }
void operator delete[](void *p, size_t, std::align_val_t) noexcept { rt_free(p, RA); }
void operator delete(void *p, const std::nothrow_t &) noexcept { rt_free(p, RA); }
void operator delete[](void *p, const std::nothrow_t &) noexcept { rt_free(p, RA); }
#endif  // RKSIM_NO_ARENA

#if defined(RKSIM_NO_ARENA) && !defined(RKSIM_ASAN_LANE)
// The sanitizer-free lane runs on the real glibc allocator. When the code under test has corrupted
// that heap, the violation still has to be reported: from then on operator new serves the reporting
// code from a static buffer instead of touching the broken heap.
namespace rksim {
volatile int g_emergency_heap = 0;
}
static char emergency_buf[4 << 20];
static size_t emergency_used = 0;
static void *plain_alloc(size_t n, size_t align)
{
  if (rksim::g_emergency_heap) {
    size_t a = (emergency_used + (align < 16 ? 16 : align) - 1) & ~((align < 16 ? 16 : align) - 1);
    if (a + n > sizeof emergency_buf)
      _exit(72);
    emergency_used = a + n;
    return emergency_buf + a;
  }
  void *p = nullptr;
  if (align <= 16)
    p = malloc(n ? n : 1);
  else if (posix_memalign(&p, align, n ? n : 1) != 0)
    p = nullptr;
  return p;
}
static void plain_free(void *p)
{
  if (!p || rksim::g_emergency_heap || ((char *)p >= emergency_buf && (char *)p < emergency_buf + sizeof emergency_buf))
    return;
  free(p);
}
void *operator new(size_t n)
{
  void *p = plain_alloc(n, 16);
  if (!p)
    throw std::bad_alloc();
  return p;
}
void *operator new[](size_t n)
{
  void *p = plain_alloc(n, 16);
  if (!p)
    throw std::bad_alloc();
  return p;
}
void *operator new(size_t n, const std::nothrow_t &) noexcept { return plain_alloc(n, 16); }
void *operator new[](size_t n, const std::nothrow_t &) noexcept { return plain_alloc(n, 16); }
void *operator new(size_t n, std::align_val_t a)
{
  void *p = plain_alloc(n, (size_t)a);
  if (!p)
    throw std::bad_alloc();
  return p;
}
void *operator new[](size_t n, std::align_val_t a)
{
  void *p = plain_alloc(n, (size_t)a);
  if (!p)
    throw std::bad_alloc();
  return p;
}
void operator delete(void *p) noexcept { plain_free(p); }
void operator delete[](void *p) noexcept { plain_free(p); }
void operator delete(void *p, size_t) noexcept { plain_free(p); }
void operator delete[](void *p, size_t) noexcept { plain_free(p); }
void operator delete(void *p, std::align_val_t) noexcept { plain_free(p); }
void operator delete[](void *p, std::align_val_t) noexcept { plain_free(p); }
void operator delete(void *p, size_t, std::align_val_t) noexcept { plain_free(p); }
void operator delete[](void *p, size_t, std::align_val_t) noexcept { plain_free(p); }
#endif
