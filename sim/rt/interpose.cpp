// Symbol interposition: blocking primitives, thread lifecycle, clock, core count.
// A definition in the executable pre-empts glibc's for every DSO (libsut, libstdc++).
// Outside a simulated run everything forwards to the real function.
#include <dlfcn.h>
#include <errno.h>
#include <linux/futex.h>
#include <pthread.h>
#include <sched.h>
#include <semaphore.h>
#include <stdarg.h>
#include <stdio.h>
#include <sys/resource.h>
#include <sys/syscall.h>
#include <sys/sysinfo.h>
#include <sys/time.h>
#include <time.h>
#include <unistd.h>

#include "rt.h"

using namespace rksim;

extern "C" void *rksim_dlsym_next(const char *name)
{
  void *p = dlsym(RTLD_NEXT, name);
  if (!p) {
    fprintf(stderr, "rksim: dlsym(%s) failed\n", name);
    _exit(2);
  }
  return p;
}

#define REAL(ret, name, ...)                                  \
  typedef ret (*name##_fn)(__VA_ARGS__);                      \
  static name##_fn real_##name()                              \
  {                                                           \
    static name##_fn f = (name##_fn)rksim_dlsym_next(#name);  \
    return f;                                                 \
  }

namespace rksim {

enum SyncType : uint8_t { ST_MUTEX = 1, ST_COND = 2, ST_SEM = 3, ST_ONCE = 4, ST_FUTEX = 5, ST_RWLOCK = 6 };

struct SyncObj
{
  uintptr_t addr;
  uint8_t type;
  int owner;        // mutex: owner tid or -1; once: runner tid; rwlock: writer tid or -1
  int count;        // sem: value; once: 0 new 1 running 2 done; rwlock: readers
  Vec<int> waiters; // cond / futex: waiting tids in arrival order
  VC vc;
};

static Vec<SyncObj *> objs;
static PtrMap objmap;

void sync_reset()
{
  for (size_t i = 0; i < objs.n; i++) {
    objs[i]->waiters.release();
    free(objs[i]);
  }
  objs.clear();
  objmap.clear();
}

static SyncObj *get_obj(uintptr_t addr, uint8_t type)
{
  uintptr_t key = (addr << 3) | type;
  uint32_t *s = objmap.slot(key);
  if (*s == 0) {
    SyncObj *o = (SyncObj *)calloc(1, sizeof(SyncObj));
    o->addr = addr;
    o->type = type;
    o->owner = -1;
    o->count = 0;
    objs.push(o);
    *s = (uint32_t)objs.n;  // index+1
  }
  return objs[*s - 1];
}

bool sync_op_enabled(Thread *t)
{
  switch (t->op) {
  case OP_LOCK: {
    SyncObj *o = get_obj(t->op_addr, ST_MUTEX);
    return o->owner == -1;
  }
  case OP_SEM_WAIT: {
    SyncObj *o = get_obj(t->op_addr, ST_SEM);
    return o->count > 0;
  }
  case OP_ONCE: {
    SyncObj *o = get_obj(t->op_addr, ST_ONCE);
    return o->count != 1;
  }
  case OP_RWLOCK: {
    SyncObj *o = get_obj(t->op_addr, ST_RWLOCK);
    if (t->op_target)  // write lock
      return o->owner == -1 && o->count == 0;
    return o->owner == -1;
  }
  default:
    return true;
  }
}

static void mutex_lock_model(Thread *me, pthread_mutex_t *m)
{
  me->op_target = 0;
  sched_point(me, OP_LOCK, (uintptr_t)m);
  SyncObj *o = get_obj((uintptr_t)m, ST_MUTEX);
  o->owner = me->id;
  hb_acquire(me, &o->vc);
}

static void mutex_unlock_model(Thread *me, pthread_mutex_t *m, bool point)
{
  if (point)
    sched_point(me, OP_UNLOCK, (uintptr_t)m);
  SyncObj *o = get_obj((uintptr_t)m, ST_MUTEX);
  if (o->owner != me->id) {
    // unlocking a mutex not held: undefined behaviour in the code under test
    char b[160];
    snprintf(b, sizeof b, "thread %d unlocks mutex %p owned by %d", me->id, (void *)m, o->owner);
    add_violation(0, "sync-misuse:unlock-not-owner", b);
  }
  o->owner = -1;
  hb_release(me, &o->vc);
}

}  // namespace rksim

// ---------------------------------------------------------------------------------------------
REAL(int, pthread_mutex_lock, pthread_mutex_t *)
REAL(int, pthread_mutex_trylock, pthread_mutex_t *)
REAL(int, pthread_mutex_unlock, pthread_mutex_t *)
REAL(int, pthread_cond_wait, pthread_cond_t *, pthread_mutex_t *)
REAL(int, pthread_cond_timedwait, pthread_cond_t *, pthread_mutex_t *, const struct timespec *)
REAL(int, pthread_cond_clockwait, pthread_cond_t *, pthread_mutex_t *, clockid_t, const struct timespec *)
REAL(int, pthread_cond_signal, pthread_cond_t *)
REAL(int, pthread_cond_broadcast, pthread_cond_t *)
REAL(int, pthread_create, pthread_t *, const pthread_attr_t *, void *(*)(void *), void *)
REAL(int, pthread_join, pthread_t, void **)
REAL(int, pthread_detach, pthread_t)
REAL(int, pthread_cancel, pthread_t)
REAL(int, pthread_once, pthread_once_t *, void (*)(void))
REAL(int, sem_init, sem_t *, int, unsigned)
REAL(int, sem_destroy, sem_t *)
REAL(int, sem_wait, sem_t *)
REAL(int, sem_trywait, sem_t *)
REAL(int, sem_post, sem_t *)
REAL(int, sched_yield, void)
REAL(int, clock_gettime, clockid_t, struct timespec *)
REAL(int, gettimeofday, struct timeval *, void *)
REAL(int, getrusage, int, struct rusage *)
REAL(long, sysconf, int)
REAL(int, get_nprocs, void)
REAL(int, sched_getaffinity, pid_t, size_t, cpu_set_t *)
REAL(int, pthread_getaffinity_np, pthread_t, size_t, cpu_set_t *)
REAL(int, nanosleep, const struct timespec *, struct timespec *)
REAL(int, usleep, useconds_t)

extern "C" {

int pthread_mutex_lock(pthread_mutex_t *m)
{
  if (!in_sim())
    return real_pthread_mutex_lock()(m);
  mutex_lock_model(tl_self, m);
  return 0;
}

int pthread_mutex_trylock(pthread_mutex_t *m)
{
  if (!in_sim())
    return real_pthread_mutex_trylock()(m);
  Thread *me = tl_self;
  sched_point(me, OP_TRYLOCK, (uintptr_t)m);
  SyncObj *o = get_obj((uintptr_t)m, ST_MUTEX);
  if (o->owner != -1)
    return EBUSY;
  o->owner = me->id;
  hb_acquire(me, &o->vc);
  return 0;
}

int pthread_mutex_unlock(pthread_mutex_t *m)
{
  if (!in_sim())
    return real_pthread_mutex_unlock()(m);
  mutex_unlock_model(tl_self, m, true);
  return 0;
}

// A timed wait may expire whenever the scheduler says so: the other threads can be arbitrarily slow
// (descheduled, stalled, swapped out). Expiry is what the waiter will observe through the clock as
// well, so the simulated clock is moved up to the deadline when it happens (libstdc++ decides
// "timeout" by reading the clock after the wait returns, not by the wait's return value).
static uint64_t ts_to_ns(const struct timespec *ts)
{
  if (!ts || ts->tv_sec < 0)
    return 0;
  return (uint64_t)ts->tv_sec * 1000000000ULL + (uint64_t)ts->tv_nsec;
}
static void timed_wait_expired(uint64_t deadline_ns)
{
  if (deadline_ns > g.clock_ns)
    g.clock_ns = deadline_ns;
  g.fault_fired[2]++;  // fault kind 2 is "timed wait expired" by convention
}

static int cond_wait_model(pthread_cond_t *c, pthread_mutex_t *m, bool timed, uint64_t deadline_ns = 0)
{
  Thread *me = tl_self;
  sched_point(me, OP_COND_WAIT, (uintptr_t)c);
  SyncObj *co = get_obj((uintptr_t)c, ST_COND);
  // atomically: release the mutex and start waiting
  mutex_unlock_model(me, m, false);
  co->waiters.push(me->id);
  me->cond_signaled = false;
  me->spurious_ok = false;
  if (timed) {
    me->spurious_ok = true;  // a timed wait may always return (timeout)
  } else if (g.spurious && !g.fair) {
    me->spurious_ok = sim_fault(0, 1, 4) != 0;  // fault kind 0 is "spurious wake-up" by convention
  }
  me->op = OP_COND_BLOCK;
  me->op_addr = (uintptr_t)c;
  g.steps++;
  pick_next(me);
  bool signaled = me->cond_signaled;
  if (!signaled) {
    for (size_t i = 0; i < co->waiters.n; i++)
      if (co->waiters[i] == me->id) {
        co->waiters.erase_at(i);
        break;
      }
  }
  me->cond_signaled = false;
  me->spurious_ok = false;
  if (timed && !signaled)
    timed_wait_expired(deadline_ns);
  // re-acquire the mutex
  me->op = OP_LOCK;
  me->op_addr = (uintptr_t)m;
  g.steps++;
  pick_next(me);
  SyncObj *mo = get_obj((uintptr_t)m, ST_MUTEX);
  mo->owner = me->id;
  hb_acquire(me, &mo->vc);
  return (timed && !signaled) ? ETIMEDOUT : 0;
}

int pthread_cond_wait(pthread_cond_t *c, pthread_mutex_t *m)
{
  if (!in_sim())
    return real_pthread_cond_wait()(c, m);
  return cond_wait_model(c, m, false);
}

int pthread_cond_timedwait(pthread_cond_t *c, pthread_mutex_t *m, const struct timespec *ts)
{
  if (!in_sim())
    return real_pthread_cond_timedwait()(c, m, ts);
  return cond_wait_model(c, m, true, ts_to_ns(ts));
}

int pthread_cond_clockwait(pthread_cond_t *c, pthread_mutex_t *m, clockid_t clk, const struct timespec *ts)
{
  if (!in_sim())
    return real_pthread_cond_clockwait()(c, m, clk, ts);
  return cond_wait_model(c, m, true, ts_to_ns(ts));
}

int pthread_cond_signal(pthread_cond_t *c)
{
  if (!in_sim())
    return real_pthread_cond_signal()(c);
  Thread *me = tl_self;
  sched_point(me, OP_COND_SIGNAL, (uintptr_t)c);
  SyncObj *co = get_obj((uintptr_t)c, ST_COND);
  if (co->waiters.n) {
    uint32_t k = co->waiters.n > 1 ? run_decide((uint32_t)co->waiters.n) : 0;
    Thread *w = g.threads[co->waiters[k]];
    co->waiters.erase_at(k);
    w->cond_signaled = true;
  }
  return 0;
}

int pthread_cond_broadcast(pthread_cond_t *c)
{
  if (!in_sim())
    return real_pthread_cond_broadcast()(c);
  Thread *me = tl_self;
  sched_point(me, OP_COND_BCAST, (uintptr_t)c);
  SyncObj *co = get_obj((uintptr_t)c, ST_COND);
  for (size_t i = 0; i < co->waiters.n; i++)
    g.threads[co->waiters[i]]->cond_signaled = true;
  co->waiters.clear();
  return 0;
}

int pthread_create(pthread_t *out, const pthread_attr_t *attr, void *(*fn)(void *), void *arg)
{
  if (!in_sim())
    return real_pthread_create()(out, attr, fn, arg);
  Thread *me = tl_self;
  sched_point(me, OP_SPAWN, 0);
  Thread *t = spawn_thread(fn, arg, me);
  if (attr) {
    int ds = 0;
    pthread_attr_getdetachstate(attr, &ds);
    if (ds == PTHREAD_CREATE_DETACHED)
      t->detached = true;
  }
  *out = t->real;
  return 0;
}

int pthread_join(pthread_t th, void **ret)
{
  if (!in_sim())
    return real_pthread_join()(th, ret);
  Thread *me = tl_self;
  Thread *t = find_thread_by_real(th);
  if (!t) {
    add_violation(1, "rt-model:join-unknown-thread", "pthread_join on a thread the simulator did not create");
    abort_run(RES_CRASH);
  }
  me->op_target = t->id;
  sched_point(me, OP_JOIN, 0);
  hb_acquire(me, &t->vc);
  if (ret)
    *ret = t->ret;
  if (!t->detached)
    sim_real_join_and_recycle(t);
  return 0;
}

int pthread_detach(pthread_t th)
{
  if (!in_sim())
    return real_pthread_detach()(th);
  Thread *me = tl_self;
  sched_point(me, OP_DETACH, 0);
  Thread *t = find_thread_by_real(th);
  if (t)
    t->detached = true;
  return 0;
}

int pthread_cancel(pthread_t th)
{
  if (!in_sim())
    return real_pthread_cancel()(th);
  // deferred cancellation takes effect at a cancellation point; modelled as never reached
  // (enkiTS only cancels workers that have already left their loop)
  (void)th;
  return 0;
}

int pthread_once(pthread_once_t *once, void (*fn)(void))
{
  if (!in_sim())
    return real_pthread_once()(once, fn);
  Thread *me = tl_self;
  me->op_target = 0;
  sched_point(me, OP_ONCE, (uintptr_t)once);
  SyncObj *o = get_obj((uintptr_t)once, ST_ONCE);
  if (o->count == 2) {
    hb_acquire(me, &o->vc);
    return 0;
  }
  o->count = 1;
  o->owner = me->id;
  fn();
  o->count = 2;
  hb_release(me, &o->vc);
  return 0;
}

int sem_init(sem_t *s, int pshared, unsigned value)
{
  if (!in_sim())
    return real_sem_init()(s, pshared, value);
  SyncObj *o = get_obj((uintptr_t)s, ST_SEM);
  o->count = (int)value;
  o->vc.zero();
  return 0;
}

int sem_destroy(sem_t *s)
{
  if (!in_sim())
    return real_sem_destroy()(s);
  SyncObj *o = get_obj((uintptr_t)s, ST_SEM);
  o->count = 0;
  return 0;
}

int sem_wait(sem_t *s)
{
  if (!in_sim())
    return real_sem_wait()(s);
  Thread *me = tl_self;
  sched_point(me, OP_SEM_WAIT, (uintptr_t)s);
  SyncObj *o = get_obj((uintptr_t)s, ST_SEM);
  o->count--;
  hb_acquire(me, &o->vc);
  return 0;
}

int sem_trywait(sem_t *s)
{
  if (!in_sim())
    return real_sem_trywait()(s);
  Thread *me = tl_self;
  sched_point(me, OP_TRYLOCK, (uintptr_t)s);
  SyncObj *o = get_obj((uintptr_t)s, ST_SEM);
  if (o->count <= 0) {
    errno = EAGAIN;
    return -1;
  }
  o->count--;
  hb_acquire(me, &o->vc);
  return 0;
}

int sem_post(sem_t *s)
{
  if (!in_sim())
    return real_sem_post()(s);
  Thread *me = tl_self;
  sched_point(me, OP_SEM_POST, (uintptr_t)s);
  SyncObj *o = get_obj((uintptr_t)s, ST_SEM);
  o->count++;
  hb_release_join(me, &o->vc);
  return 0;
}

int sched_yield(void)
{
  if (!in_sim())
    return real_sched_yield()();
  sched_point(tl_self, OP_YIELD, 0);
  return 0;
}

// futex, as used by libstdc++.so (std::future, __cxa_guard_*)
long syscall(long n, ...)
{
  va_list ap;
  va_start(ap, n);
  long a = va_arg(ap, long), b = va_arg(ap, long), c = va_arg(ap, long), d = va_arg(ap, long),
       e = va_arg(ap, long), f = va_arg(ap, long);
  va_end(ap);
  if (n == SYS_futex && in_sim()) {
    Thread *me = tl_self;
    int op = ((int)b) & ~(FUTEX_PRIVATE_FLAG | FUTEX_CLOCK_REALTIME);
    volatile int *addr = (volatile int *)a;
    SyncObj *o = get_obj((uintptr_t)addr, ST_FUTEX);
    if (op == FUTEX_WAIT || op == FUTEX_WAIT_BITSET) {
      sched_point(me, OP_FUTEX_WAIT, (uintptr_t)addr);
      if (*addr != (int)c) {
        errno = EAGAIN;
        return -1;
      }
      bool timed = d != 0;
      uint64_t deadline_ns = 0;
      if (timed)  // FUTEX_WAIT: relative, FUTEX_WAIT_BITSET: absolute
        deadline_ns = ts_to_ns((const struct timespec *)d) + (op == FUTEX_WAIT ? g.clock_ns : 0);
      o->waiters.push(me->id);
      me->futex_woken = false;
      me->op = OP_FUTEX_BLOCK;
      me->op_addr = (uintptr_t)addr;
      if (timed) {
        // a timed futex wait may time out at any moment: treat as always enabled
        me->futex_woken = true;
      }
      g.steps++;
      pick_next(me);
      bool was_woken = true;
      for (size_t i = 0; i < o->waiters.n; i++)
        if (o->waiters[i] == me->id) {
          o->waiters.erase_at(i);
          was_woken = false;
          break;
        }
      me->futex_woken = false;
      hb_acquire(me, &o->vc);
      if (!was_woken) {
        timed_wait_expired(deadline_ns);
        errno = ETIMEDOUT;
        return -1;
      }
      return 0;
    } else if (op == FUTEX_WAKE || op == FUTEX_WAKE_BITSET) {
      sched_point(me, OP_FUTEX_WAKE, (uintptr_t)addr);
      hb_release_join(me, &o->vc);
      long woken = 0;
      long want = c;
      while (o->waiters.n && woken < want) {
        uint32_t k = 0;
        if (o->waiters.n > 1 && want < (long)o->waiters.n)
          k = run_decide((uint32_t)o->waiters.n);
        Thread *w = g.threads[o->waiters[k]];
        o->waiters.erase_at(k);
        w->futex_woken = true;
        woken++;
      }
      return woken;
    } else {
      add_violation(1, "rt-model:futex-op", "unsupported futex operation inside a simulated run");
      abort_run(RES_CRASH);
    }
  }
  long r = raw_syscall6(n, a, b, c, d, e, f);
  if (r < 0 && r > -4096) {
    errno = (int)-r;
    return -1;
  }
  return r;
}

// ---- simulated clock ---------------------------------------------------------------------
static uint64_t clock_advance_step();
static __thread uint64_t tl_last_reading;  // simulated threads are fresh OS threads: starts at 0 in every run
static uint64_t clock_advance()
{
  // two cores can read the clock in the same instant: with ties enabled a thread may get the value another thread got last,
  // as long as its own readings still increase
  if (g.clock_ties && g.clock_ns > tl_last_reading) {
    tl_last_reading = g.clock_ns;
    return g.clock_ns;
  }
  uint64_t c = clock_advance_step();
  tl_last_reading = c;
  return c;
}
static uint64_t clock_advance_step()
{
  uint64_t step = 1000;  // >= 1 microsecond per reading
  if (g.clock_jumps && !g.fair) {
    if (sim_fault(1, 1, 16))  // fault kind 1 is "clock jump" by convention
      step += 1000ULL * (1 + run_decide(5000000));
    else
      step += run_decide(3) * 500;
  }
  g.clock_ns += step;
  return g.clock_ns;
}

int clock_gettime(clockid_t clk, struct timespec *ts)
{
  if (!in_sim())
    return real_clock_gettime()(clk, ts);
  sched_point(tl_self, OP_CLOCK, 0);
  uint64_t t = clock_advance();
  ts->tv_sec = (time_t)(t / 1000000000ULL);
  ts->tv_nsec = (long)(t % 1000000000ULL);
  return 0;
}

int gettimeofday(struct timeval *tv, void *tz)
{
  if (!in_sim())
    return real_gettimeofday()(tv, tz);
  sched_point(tl_self, OP_CLOCK, 0);
  uint64_t t = clock_advance();
  tv->tv_sec = (time_t)(t / 1000000000ULL);
  tv->tv_usec = (suseconds_t)((t % 1000000000ULL) / 1000);
  return 0;
}

int getrusage(int who, struct rusage *ru)
{
  if (!in_sim())
    return real_getrusage()(who, ru);
  sched_point(tl_self, OP_CLOCK, 0);
  uint64_t t = clock_advance();
  memset(ru, 0, sizeof *ru);
  uint64_t ut = t / 2, st = t / 8;
  ru->ru_utime.tv_sec = (time_t)(ut / 1000000000ULL);
  ru->ru_utime.tv_usec = (suseconds_t)((ut % 1000000000ULL) / 1000);
  ru->ru_stime.tv_sec = (time_t)(st / 1000000000ULL);
  ru->ru_stime.tv_usec = (suseconds_t)((st % 1000000000ULL) / 1000);
  ru->ru_maxrss = 10000;
  return 0;
}

int nanosleep(const struct timespec *req, struct timespec *rem)
{
  if (!in_sim())
    return real_nanosleep()(req, rem);
  g.clock_ns += (uint64_t)req->tv_sec * 1000000000ULL + (uint64_t)req->tv_nsec;
  sched_point(tl_self, OP_YIELD, 0);
  if (rem) {
    rem->tv_sec = 0;
    rem->tv_nsec = 0;
  }
  return 0;
}

int usleep(useconds_t us)
{
  if (!in_sim())
    return real_usleep()(us);
  g.clock_ns += (uint64_t)us * 1000ULL;
  sched_point(tl_self, OP_YIELD, 0);
  return 0;
}

long sysconf(int name)
{
  if (in_sim() && (name == _SC_NPROCESSORS_ONLN || name == _SC_NPROCESSORS_CONF))
    return g.cores;
  return real_sysconf()(name);
}

int get_nprocs(void)
{
  if (in_sim())
    return g.cores;
  return real_get_nprocs()();
}

// the affinity mask of the simulated process: the first `affinity` of `cores` CPUs
static void fill_affinity(size_t size, cpu_set_t *mask)
{
  memset(mask, 0, size);
  int n = g.affinity > 0 && g.affinity < g.cores ? g.affinity : g.cores;
  for (int i = 0; i < n && (size_t)i < size * 8; i++)
    CPU_SET_S(i, size, mask);
}
int sched_getaffinity(pid_t pid, size_t size, cpu_set_t *mask)
{
  if (!in_sim())
    return real_sched_getaffinity()(pid, size, mask);
  fill_affinity(size, mask);
  return 0;
}
int pthread_getaffinity_np(pthread_t th, size_t size, cpu_set_t *mask)
{
  if (!in_sim())
    return real_pthread_getaffinity_np()(th, size, mask);
  fill_affinity(size, mask);
  return 0;
}

}  // extern "C"
