// rksim driver: worker loop (fork per batch), replay, shrink, single-run debugging.
// Runs on the controller thread only (never a simulated thread), so std containers are fine.
#include <errno.h>
#include <fcntl.h>
#include <sched.h>
#include <signal.h>
#include <stdarg.h>
#include <stdio.h>
#include <sys/personality.h>
#include <sys/stat.h>
#include <sys/wait.h>
#include <time.h>
#include <unistd.h>

#include <algorithm>
#include <map>
#include <string>
#include <unordered_set>
#include <vector>

#include "rt.h"

namespace rksim {
void hooks_reset();
}
using namespace rksim;

// ---------------------------------------------------------------------------------------------
static std::vector<const SimScenario *> &registry()
{
  static std::vector<const SimScenario *> r;
  return r;
}
void sim_register(const SimScenario *s) { registry().push_back(s); }

extern "C" const char *rksim_lane_name();   // provided by the lane's libsut
extern "C" unsigned rksim_lane_bit();

static const SimScenario *find_scenario(const char *name)
{
  for (auto s : registry())
    if (!strcmp(s->name, name))
      return s;
  return nullptr;
}

static double now_s()
{
  struct timespec ts;
  raw_syscall6(228 /*SYS_clock_gettime*/, CLOCK_MONOTONIC, (long)&ts, 0, 0, 0, 0);
  return ts.tv_sec + ts.tv_nsec * 1e-9;
}

// ---------------------------------------------------------------------------------------------
// minimal JSON
struct JVal
{
  enum T { NUL, NUM, STR, ARR, OBJ, BOOL } t = NUL;
  double num = 0;
  std::string str;
  std::vector<JVal> arr;
  std::vector<std::pair<std::string, JVal>> obj;
  const JVal *get(const char *k) const
  {
    for (auto &p : obj)
      if (p.first == k)
        return &p.second;
    return nullptr;
  }
};
struct JParser
{
  const char *p;
  void ws()
  {
    while (*p == ' ' || *p == '\n' || *p == '\t' || *p == '\r')
      p++;
  }
  bool parse(JVal &v)
  {
    ws();
    if (*p == '{') {
      v.t = JVal::OBJ;
      p++;
      ws();
      if (*p == '}') {
        p++;
        return true;
      }
      for (;;) {
        JVal k;
        ws();
        if (!parse(k) || k.t != JVal::STR)
          return false;
        ws();
        if (*p != ':')
          return false;
        p++;
        JVal x;
        if (!parse(x))
          return false;
        v.obj.emplace_back(k.str, std::move(x));
        ws();
        if (*p == ',') {
          p++;
          continue;
        }
        if (*p == '}') {
          p++;
          return true;
        }
        return false;
      }
    }
    if (*p == '[') {
      v.t = JVal::ARR;
      p++;
      ws();
      if (*p == ']') {
        p++;
        return true;
      }
      for (;;) {
        JVal x;
        if (!parse(x))
          return false;
        v.arr.push_back(std::move(x));
        ws();
        if (*p == ',') {
          p++;
          continue;
        }
        if (*p == ']') {
          p++;
          return true;
        }
        return false;
      }
    }
    if (*p == '"') {
      v.t = JVal::STR;
      p++;
      while (*p && *p != '"') {
        if (*p == '\\' && p[1]) {
          p++;
          char c = *p;
          if (c == 'n')
            v.str += '\n';
          else if (c == 't')
            v.str += '\t';
          else
            v.str += c;
          p++;
        } else
          v.str += *p++;
      }
      if (*p != '"')
        return false;
      p++;
      return true;
    }
    if (!strncmp(p, "true", 4)) {
      v.t = JVal::BOOL;
      v.num = 1;
      p += 4;
      return true;
    }
    if (!strncmp(p, "false", 5)) {
      v.t = JVal::BOOL;
      p += 5;
      return true;
    }
    if (!strncmp(p, "null", 4)) {
      p += 4;
      return true;
    }
    char *e;
    v.num = strtod(p, &e);
    if (e == p)
      return false;
    v.t = JVal::NUM;
    p = e;
    return true;
  }
};

static std::string jescape(const char *s)
{
  std::string o;
  for (; *s; s++) {
    unsigned char c = (unsigned char)*s;
    if (c == '"' || c == '\\') {
      o += '\\';
      o += (char)c;
    } else if (c == '\n')
      o += "\\n";
    else if (c == '\t')
      o += "\\t";
    else if (c < 0x20)
      o += ' ';
    else if (c >= 0x7f) {
      // file content quoted in a detail may hold any byte (freed-memory fill for one): keep the report valid UTF-8
      char b[8];
      snprintf(b, sizeof b, "\\u00%02x", c);
      o += b;
    } else
      o += (char)c;
  }
  return o;
}

// ---------------------------------------------------------------------------------------------
struct RunCfg
{
  const SimScenario *scen = nullptr;
  int tier = 0;  // 0 quick, 1 thorough
  uint64_t master = 1;
  uint64_t index = 0;
  bool replay = false;
  std::vector<uint32_t> plan_in, run_in;
  bool verbose = false;
};

struct RunOut
{
  int result = 0;
  std::string sig;      // violation signature ("" if none)
  std::string detail;
  uint64_t ev_hash = 0, ilv_hash = 0, steps = 0, switches = 0, branch = 0;
  uint64_t plan_hash = 0;
  int nthreads = 0;
  bool nontrivial = false;
};

static uint64_t run_seed_of(uint64_t master, uint64_t index)
{
  return Rng::mix(master * 0x9e3779b97f4a7c15ULL ^ Rng::mix(index + 0x1234567));
}

static void pick_strategy(Rng &r)
{
  // swarm: strategy and its parameters vary per run (generators of the decision stream only)
  uint32_t k = r.below(10);
  g.demote_after = 200 + r.below(600);
  g.pct_depth = 0;
  if (k < 5) {
    g.strategy = STRAT_WALK;
    static const uint32_t stays[] = {0, 500, 900, 980};
    g.stay_num = stays[r.below(4)];
  } else if (k < 9) {
    g.strategy = STRAT_PCT;
    g.pct_depth = (int)r.below(3);
    g.pct_est = 50 + r.below(3000);
    for (int i = 0; i < g.pct_depth; i++)
      g.pct_points[i] = 1 + r.below((uint32_t)g.pct_est);
  } else {
    g.strategy = STRAT_DELAY;
    g.delay_budget = 1 + (int)r.below(4);
    g.pct_est = 50 + r.below(400);
  }
}

static std::string symbolize_pcs(const char *detail)
{
  // replace "pc=0x..." tokens of the detail text by function names (controller thread only)
  std::string out;
  const char *p = detail;
  while (*p) {
    if (!strncmp(p, "pc=0x", 5)) {
      char *e;
      unsigned long pc = strtoul(p + 3, &e, 16);
      char buf[700];
      out += "pc=";
      out += image_symbolize(pc, buf, sizeof buf);
      p = e;
    } else
      out += *p++;
  }
  return out;
}

static std::string first_fn_of(const std::string &sym_detail, const char *key)
{
  // extract the function name following key "pc=" occurrence number given by key ("access","alloc","free")
  size_t pos = 0;
  if (!strcmp(key, "access"))
    pos = sym_detail.find("pc=");
  else if (!strcmp(key, "alloc")) {
    pos = sym_detail.find("alloc(");
    if (pos != std::string::npos)
      pos = sym_detail.find("pc=", pos);
  } else {
    pos = sym_detail.find("free(");
    if (pos != std::string::npos)
      pos = sym_detail.find("pc=", pos);
  }
  if (pos == std::string::npos)
    return "?";
  size_t s = pos + 3;
  size_t e = sym_detail.find('@', s);
  if (e == std::string::npos)
    return "?";
  std::string fn = sym_detail.substr(s, e - s);
  // drop argument lists and template arguments for stability
  std::string o;
  int depth = 0;
  for (char c : fn) {
    if (c == '<' || c == '(')
      depth++;
    else if (c == '>' || c == ')')
      depth--;
    else if (depth == 0)
      o += c;
  }
  return o;
}

#if defined(RKSIM_NO_ARENA) && !defined(RKSIM_ASAN_LANE)
namespace rksim {
extern volatile int g_emergency_heap;
}
#endif
static const RunCfg *g_cur_cfg = nullptr;
static uint64_t g_cur_index = 0;

static void serialise_current(const RunCfg &cfg, const RunOut &out, std::string *replay_json)
{
    std::string j = "{\n";
    char b[256];
    snprintf(b, sizeof b, " \"property\": \"%s\",\n \"scenario\": \"%s\",\n \"lane\": \"%s\",\n", cfg.scen->property,
             cfg.scen->name, rksim_lane_name());
    j += b;
    snprintf(b, sizeof b, " \"tier\": %d,\n \"master_seed\": %lu,\n \"index\": %lu,\n", cfg.tier,
             (unsigned long)cfg.master, (unsigned long)cfg.index);
    j += b;
    j += " \"plan\": [";
    for (size_t i = 0; i < g.plan_dec.n; i++) {
      snprintf(b, sizeof b, "%s%u", i ? "," : "", g.plan_dec[i]);
      j += b;
    }
    j += "],\n \"run_rle\": [";
    size_t i = 0;
    bool first = true;
    while (i < g.run_dec.n) {
      size_t k = i;
      while (k < g.run_dec.n && g.run_dec[k] == g.run_dec[i])
        k++;
      snprintf(b, sizeof b, "%s[%u,%zu]", first ? "" : ",", g.run_dec[i], k - i);
      j += b;
      first = false;
      i = k;
    }
    j += "],\n";
    char pd[4096] = "{}";
    if (cfg.scen->describe)
      cfg.scen->describe(pd, sizeof pd);
    j += " \"decoded_plan\": ";
    j += pd;
    j += ",\n";
    snprintf(b, sizeof b, " \"memory_model\": \"%s\",\n", g.tso ? "x86-TSO store buffering" : "sequentially consistent");
    j += b;
    snprintf(b, sizeof b, " \"granularity\": %d,\n \"threads\": %d,\n \"steps\": %lu,\n \"switches\": %lu,\n",
             g.granularity, g.nthreads, (unsigned long)g.steps, (unsigned long)g.switches);
    j += b;
    j += " \"switch_list\": [";
    for (size_t k = 0; k + 2 < g.switch_log.n + 0 && k < 600; k += 3) {
      snprintf(b, sizeof b, "%s[%u,%u,%u]", k ? "," : "", g.switch_log[k], g.switch_log[k + 1], g.switch_log[k + 2]);
      j += b;
    }
    j += "],\n";
    j += " \"faults_fired\": {";
    bool ff = true;
    for (int k = 0; k < MAX_FAULT_KINDS && cfg.scen->fault_names && cfg.scen->fault_names[k]; k++) {
      snprintf(b, sizeof b, "%s\"%s\": %lu", ff ? "" : ", ", cfg.scen->fault_names[k], (unsigned long)g.fault_fired[k]);
      j += b;
      ff = false;
    }
    j += "},\n";
    static const char *resn[] = {"ok", "violation", "deadlock", "step-cap", "crash", "timeout", "diverged"};
    snprintf(b, sizeof b, " \"result\": \"%s\",\n", resn[out.result]);
    j += b;
    j += " \"violation\": {\"signature\": \"" + jescape(out.sig.c_str()) + "\", \"detail\": \"" +
         jescape(out.detail.c_str()) + "\"},\n";
    if (g.nviol > 1) {
      j += " \"more_violations\": [";
      for (int k = 1; k < g.nviol; k++) {
        j += std::string(k > 1 ? "," : "") + "\"" + jescape(g.viol[k].cls) + ": " +
             jescape(symbolize_pcs(g.viol[k].detail).c_str()) + "\"";
      }
      j += "],\n";
    }
    if (g.notes_len)
      j += " \"notes\": \"" + jescape(g.notes) + "\",\n";
    snprintf(b, sizeof b, " \"expect\": {\"ev_hash\": \"%016lx\", \"ilv_hash\": \"%016lx\"}\n}\n",
             (unsigned long)g.ev_hash, (unsigned long)g.ilv_hash);
    j += b;
    *replay_json = j;
}

// signature of the first recorded violation: the oracle's class, for heap / race reports extended
// by the (template-stripped) function names of the sites involved
static void fill_signature(RunOut &out)
{
  std::string sd = symbolize_pcs(g.viol[0].detail);
  std::string sig = g.viol[0].cls;
  if (!strncmp(g.viol[0].cls, "heap:", 5)) {
    sig += "|access=" + first_fn_of(sd, "access") + "|alloc=" + first_fn_of(sd, "alloc");
  } else if (!strncmp(g.viol[0].cls, "data-race:", 10)) {
    // both access sites, order-independent
    std::string a = first_fn_of(sd, "access");
    size_t p2 = sd.find("pc=", sd.find("pc=") + 3);
    std::string b = "?";
    if (p2 != std::string::npos) {
      std::string rest = sd.substr(p2);
      b = first_fn_of(rest, "access");
    }
    if (b < a)
      std::swap(a, b);
    sig += "|" + a + "|" + b;
  }
  out.sig = sig;
  out.detail = sd;
}

static void do_run(const RunCfg &cfg, RunOut &out, std::string *replay_json)
{
  g_cur_cfg = &cfg;
  g.scen = cfg.scen;
  g.tier = cfg.tier;
  sim_reset_run_state();
  hooks_reset();
  image_restore();
  arena_reset();
  uint64_t rs = run_seed_of(cfg.master, cfg.index);
  g.seed = rs;
  g.rng_plan.s = Rng::mix(rs ^ 0x1111);
  g.rng_run.s = Rng::mix(rs ^ 0x2222);
  Rng rstrat;
  rstrat.s = Rng::mix(rs ^ 0x3333);
  pick_strategy(rstrat);
  g.replaying = cfg.replay;
  g.plan_in.clear();
  g.run_in.clear();
  if (cfg.replay) {
    for (uint32_t v : cfg.plan_in)
      g.plan_in.push(v);
    for (uint32_t v : cfg.run_in)
      g.run_in.push(v);
    g.strategy = STRAT_REPLAY;
  }
  cfg.scen->reset();
  // plan decision 0: scheduling-point granularity (0 = sync/atomic/volatile only)
  g.granularity = (int)sim_plan(2);
  cfg.scen->plan(cfg.tier);
  sim_start_run();
  int res = g.result;
  if (res == RES_OK || (res == RES_VIOLATION && g.nlive == 0)) {
    cfg.scen->check();
    if (g.nviol)
      res = RES_VIOLATION;
  }
  char cls[200] = "";
  if (res == RES_DEADLOCK || res == RES_CAP) {
    if (g.nviol) {
      res = RES_VIOLATION;
    } else if (cfg.scen->classify_stuck && cfg.scen->classify_stuck(res == RES_DEADLOCK, cls, sizeof cls)) {
      char d[300];
      snprintf(d, sizeof d, "%s after %lu scheduling points, phase %d, %d threads unfinished",
               res == RES_DEADLOCK ? "no runnable thread" : "step cap reached", (unsigned long)g.steps, g.phase,
               g.nlive);
      add_violation(0, cls, d);
      res = RES_VIOLATION;
    }
  }
  out.result = res;
  out.ev_hash = g.ev_hash;
  out.ilv_hash = g.ilv_hash;
  out.steps = g.steps;
  out.switches = g.switches;
  out.branch = g.branch_points;
  out.nthreads = g.nthreads;
  uint64_t ph = 0xcbf29ce484222325ULL;
  for (size_t i = 0; i < g.plan_dec.n; i++)
    ph = (ph ^ g.plan_dec[i]) * 0x100000001b3ULL;
  out.plan_hash = ph;
  uint64_t nf = 0;
  for (int i = 0; i < MAX_FAULT_KINDS; i++)
    nf += g.fault_fired[i];
  out.nontrivial = g.switches > 0 || nf > 0;
  if (cfg.scen->nontrivial_faults)
    out.nontrivial = nf > 0 || g.plan_dec.n > 2;
  if (res == RES_VIOLATION && g.nviol) {
    fill_signature(out);
  } else if (res == RES_DEADLOCK) {
    out.sig = "rt:unclassified-deadlock";
  }
  if (replay_json)
    serialise_current(cfg, out, replay_json);
  if (cfg.verbose) {
    fprintf(stderr, "run index=%lu result=%d steps=%lu switches=%lu threads=%d viol=%d sig=%s\n  %s\n",
            (unsigned long)cfg.index, res, (unsigned long)g.steps, (unsigned long)g.switches, g.nthreads, g.nviol,
            out.sig.c_str(), out.detail.c_str());
    for (size_t i = 0; i < g.events.n && i < 400; i++)
      fprintf(stderr, "  ev#%zu t%d code=%u a=%lu b=%lu\n", i + 1, g.events[i].tid, g.events[i].code,
              (unsigned long)g.events[i].a, (unsigned long)g.events[i].b);
    if (g.notes_len)
      fprintf(stderr, "  notes: %s\n", g.notes);
  }
}

// ---------------------------------------------------------------------------------------------
// pipe protocol child -> parent
struct MsgRun
{
  uint64_t index;
  int32_t result;
  uint32_t nontrivial;
  uint64_t ev_hash, ilv_hash, plan_hash, steps, switches, branch;
  uint32_t nthreads, pad;
};
struct MsgBatch
{
  uint64_t runs;
  uint64_t fault_fired[MAX_FAULT_KINDS], fault_offered[MAX_FAULT_KINDS], probes[MAX_PROBES];
  uint64_t incidental, races_checked, clock_span_ns, arena_bytes;
  uint64_t hb_overflow_runs;
  uint64_t g0_runs, g1_runs;
  uint64_t strat_runs[4];
  uint64_t tso_runs, tso_stores, tso_delays;
  char incidental_first[200];
};

static bool write_all(int fd, const void *p, size_t n)
{
  const char *c = (const char *)p;
  while (n) {
    ssize_t k = write(fd, c, n);
    if (k < 0) {
      if (errno == EINTR)
        continue;
      return false;
    }
    c += k;
    n -= (size_t)k;
  }
  return true;
}
static bool read_all(int fd, void *p, size_t n)
{
  char *c = (char *)p;
  while (n) {
    ssize_t k = read(fd, c, n);
    if (k < 0) {
      if (errno == EINTR)
        continue;
      return false;
    }
    if (k == 0)
      return false;
    c += k;
    n -= (size_t)k;
  }
  return true;
}
static void send_msg(int fd, char tag, const void *p, uint32_t n)
{
  char hdr[8];
  hdr[0] = tag;
  memcpy(hdr + 4, &n, 4);
  write_all(fd, hdr, 8);
  write_all(fd, p, n);
}

static int g_child_fd = -1;
static MsgBatch g_batch;


// single-task (fault layer) lanes: a sanitizer report, a crash or a run that does not terminate IS
// the violation (memory safety / totality); report it with the decisions taken so far
static void fill_signature(RunOut &out);
static void report_fatal_as_violation(const char *sig_prefix, const char *what, uintptr_t pc)
{
  static volatile int once = 0;
  if (once++)
    _exit(71);
#if defined(RKSIM_NO_ARENA) && !defined(RKSIM_ASAN_LANE)
  g_emergency_heap = 1;  // the real heap may be what the code under test has just corrupted
#endif
  RunOut out;
  out.result = RES_VIOLATION;
  char fn[700] = "?";
  if (pc)
    image_symbolize(pc + 1, fn, sizeof fn);
  std::string f = fn;
  size_t at = f.find('@');
  std::string fname = at == std::string::npos ? f : f.substr(0, at);
  std::string o;
  int depth = 0;
  for (char c : fname) {
    if (c == '<' || c == '(')
      depth++;
    else if (c == '>' || c == ')')
      depth--;
    else if (depth == 0)
      o += c;
  }
  out.sig = std::string(sig_prefix) + ":" + what + (pc ? "|" + o : std::string());
  out.detail = std::string(what) + " at " + fn;
  if (g.nviol) {
    // the run had already recorded a violation: the crash is its consequence
    std::string crash = out.sig;
    fill_signature(out);
    out.detail += " [followed by " + crash + "]";
  }
  out.ev_hash = g.ev_hash;
  out.ilv_hash = g.ilv_hash;
  out.steps = g.steps;
  out.nontrivial = true;
  std::string rj;
  if (g_cur_cfg)
    serialise_current(*g_cur_cfg, out, &rj);
  char pth[512];
  snprintf(pth, sizeof pth, "%s/fatal_p%d_i%lu.replay.json", getenv("RKSIM_OUTDIR") ? getenv("RKSIM_OUTDIR") : "/verif/build/scratch", (int)getpid(),
           (unsigned long)g_cur_index);
  {
    int fd2 = open(pth, O_WRONLY | O_CREAT | O_TRUNC, 0644);  // no stdio: it would allocate
    if (fd2 >= 0) {
      write_all(fd2, rj.data(), rj.size());
      close(fd2);
    }
  }
  if (g_child_fd >= 0) {
    MsgRun m;
    memset(&m, 0, sizeof m);
    m.index = g_cur_index;
    m.result = RES_VIOLATION;
    m.nontrivial = 1;
    m.ev_hash = g.ev_hash;
    m.ilv_hash = g.ilv_hash;
    m.steps = g.steps;
    m.nthreads = (uint32_t)g.nthreads;
    send_msg(g_child_fd, 'R', &m, sizeof m);
    std::string v = std::to_string(g_cur_index) + "\t1\t" + out.sig + "\t" + pth + "\t" + out.detail;
    send_msg(g_child_fd, 'V', v.c_str(), (uint32_t)v.size() + 1);
    send_msg(g_child_fd, 'S', rj.c_str(), (uint32_t)rj.size() + 1);
    g_batch.runs++;
    send_msg(g_child_fd, 'B', &g_batch, sizeof g_batch);
  }
  _exit(0);
}

#ifdef RKSIM_ASAN_LANE
extern "C" {
void __sanitizer_set_death_callback(void (*)(void));
int __asan_report_present(void);
const char *__asan_get_report_description(void);
void *__asan_get_report_pc(void);
}
static void on_sanitizer_death()
{
  if (__asan_report_present())
    report_fatal_as_violation("sanitizer:asan", __asan_get_report_description(), (uintptr_t)__asan_get_report_pc());
  else
    report_fatal_as_violation("sanitizer", "ubsan-or-runtime-abort", 0);
}
extern "C" __attribute__((used)) const char *__asan_default_options()
{
  return "exitcode=77:detect_leaks=0:allocator_may_return_null=1:handle_segv=0:handle_sigbus=0:handle_abort=0:handle_sigfpe=0:handle_sigill=0:detect_stack_use_after_return=0:max_allocation_size_mb=20480";
}
extern "C" __attribute__((used)) const char *__ubsan_default_options() { return "halt_on_error=1:print_stacktrace=0"; }
#endif

static void child_crash_handler(int sig)
{
  // A fatal signal inside an active run is an outcome of the code under test (memory error,
  // std::terminate, assert): report it as a violation with the decisions taken so far. A run that
  // exceeds its wall budget is a violation only on the single-task lanes (totality); on the
  // simulated-thread lanes it would point at the simulator itself and stays 'broken'.
  if (sig == SIGALRM && g.scen && g.active && !g.scen->nontrivial_faults && g_child_fd >= 0) {
    // simulated-thread lanes: instrumented code that loops for ever runs into the step cap, so a run that is still going when
    // the wall-clock alarm fires is a slow simulation (a hundred simulated threads on a loaded machine), not an outcome of the
    // code under test. It is counted as inconclusive, like a step-cap run, and the batch goes on after it.
    MsgRun m;
    memset(&m, 0, sizeof m);
    m.index = g_cur_index;
    m.result = RES_CAP;
    m.steps = g.steps;
    send_msg(g_child_fd, 'R', &m, sizeof m);
    g_batch.runs++;
    send_msg(g_child_fd, 'B', &g_batch, sizeof g_batch);
    _exit(0);
  }
  if (g.scen && g.active && (sig != SIGALRM || g.scen->nontrivial_faults)) {
    char w[64];
    snprintf(w, sizeof w, sig == SIGALRM ? "no-termination-within-wall-budget" : (sig == SIGABRT ? "abort (std::terminate / assert)" : "signal-%d"), sig);
    report_fatal_as_violation(sig == SIGALRM ? "hang" : "crash", w, 0);
  }
  // report what we know and leave
  char buf[300];
  int n = snprintf(buf, sizeof buf, "%lu %d %d %s", (unsigned long)g_cur_index, sig, g.nviol,
                   g.nviol ? g.viol[0].cls : "");
  if (g_child_fd >= 0) {
    send_msg(g_child_fd, 'B', &g_batch, sizeof g_batch);
    send_msg(g_child_fd, 'C', buf, (uint32_t)n + 1);
  }
  _exit(70);
}

static void batch_accumulate()
{
  g_batch.runs++;
  for (int i = 0; i < MAX_FAULT_KINDS; i++) {
    g_batch.fault_fired[i] += g.fault_fired[i];
    g_batch.fault_offered[i] += g.fault_offered[i];
  }
  for (int i = 0; i < MAX_PROBES; i++)
    g_batch.probes[i] += g.probes[i];
  if (g.incidental && !g_batch.incidental)
    snprintf(g_batch.incidental_first, sizeof g_batch.incidental_first, "%s", g.incidental_first);
  g_batch.incidental += g.incidental;
  g_batch.races_checked += g.races_checked;
  g_batch.clock_span_ns += g.clock_ns - 1000000000ULL;
  g_batch.arena_bytes += arena_used();
  g_batch.hb_overflow_runs += g.hb_overflow ? 1 : 0;
  if (g.granularity)
    g_batch.g1_runs++;
  else
    g_batch.g0_runs++;
  g_batch.strat_runs[g.strategy & 3]++;
  g_batch.tso_runs += g.tso ? 1 : 0;
  g_batch.tso_stores += g.tso_stores;
  g_batch.tso_delays += g.tso_delays;
}

static void install_child_handlers()
{
#ifdef RKSIM_ASAN_LANE
  __sanitizer_set_death_callback(on_sanitizer_death);
#endif
  struct sigaction sa;
  memset(&sa, 0, sizeof sa);
  sa.sa_handler = child_crash_handler;
  static char altstack[65536];
  stack_t ss;
  ss.ss_sp = altstack;
  ss.ss_size = sizeof altstack;
  ss.ss_flags = 0;
  sigaltstack(&ss, nullptr);
  sa.sa_flags = SA_ONSTACK;
  sigaction(SIGSEGV, &sa, nullptr);
  sigaction(SIGBUS, &sa, nullptr);
  sigaction(SIGABRT, &sa, nullptr);
  sigaction(SIGFPE, &sa, nullptr);
  sigaction(SIGILL, &sa, nullptr);
  sigaction(SIGALRM, &sa, nullptr);
}

// child: run indices [from, to) stepping by stride until an abnormal end; returns never
static void child_batch(int fd, RunCfg cfg, uint64_t from, uint64_t to, uint64_t stride, const char *outdir, int worker,
                        int samples_wanted, unsigned per_run_alarm, double deadline)
{
  g_child_fd = fd;
  memset(&g_batch, 0, sizeof g_batch);
  install_child_handlers();
  int nviol_batch = 0;
  for (uint64_t idx = from; idx < to; idx += stride) {
    if (idx != from && now_s() > deadline)
      break;  // wall budget used up: end the batch here
    g_cur_index = idx;
    cfg.index = idx;
    RunOut out;
    std::string rj;
    bool want_json = samples_wanted > 0;
    alarm(per_run_alarm);
    do_run(cfg, out, want_json ? &rj : nullptr);
    alarm(0);
    bool abnormal = !(out.result == RES_OK || (out.result == RES_VIOLATION && g.nlive == 0));
    batch_accumulate();
    MsgRun m;
    memset(&m, 0, sizeof m);
    m.index = idx;
    m.result = out.result;
    m.nontrivial = out.nontrivial;
    m.ev_hash = out.ev_hash;
    m.ilv_hash = out.ilv_hash;
    m.plan_hash = out.plan_hash;
    m.steps = out.steps;
    m.switches = out.switches;
    m.branch = out.branch;
    m.nthreads = (uint32_t)out.nthreads;
    send_msg(fd, 'R', &m, sizeof m);
    if (want_json && out.result == RES_OK) {
      send_msg(fd, 'S', rj.c_str(), (uint32_t)rj.size() + 1);
      samples_wanted--;
    }
    if (out.result != RES_OK && out.result != RES_CAP) {
      // write a replay file for anything that is not a clean run (a step-cap run is inconclusive and only counted)
      char pth[512];
      snprintf(pth, sizeof pth, "%s/w%d_i%lu.replay.json", outdir, worker, (unsigned long)idx);
      if (rj.empty())
        serialise_current(cfg, out, &rj);
      FILE *f = fopen(pth, "w");
      if (f) {
        fwrite(rj.data(), 1, rj.size(), f);
        fclose(f);
      }
      std::string v = std::to_string(idx) + "\t" + std::to_string(out.result) + "\t" + out.sig + "\t" + pth + "\t" +
                      out.detail;
      send_msg(fd, 'V', v.c_str(), (uint32_t)v.size() + 1);
      if (++nviol_batch >= 12)
        abnormal = true;  // enough material: stop this batch (the worker stops as well)
    }
    if (abnormal) {
      send_msg(fd, 'B', &g_batch, sizeof g_batch);
      _exit(0);
    }
  }
  send_msg(fd, 'B', &g_batch, sizeof g_batch);
  _exit(0);
}

// ---------------------------------------------------------------------------------------------
// parent side of a forked child
struct ChildResult
{
  std::vector<MsgRun> runs;
  std::vector<std::string> viols;    // tab separated: idx, result, sig, path, detail
  std::vector<std::string> samples;
  MsgBatch batch;
  bool have_batch = false;
  std::string crash;                 // "idx sig nviol cls"
  int exit_status = 0;
  bool timed_out = false;
};

static void read_child(int fd, pid_t pid, ChildResult &cr)
{
  for (;;) {
    char hdr[8];
    if (!read_all(fd, hdr, 8))
      break;
    uint32_t n;
    memcpy(&n, hdr + 4, 4);
    std::vector<char> buf(n ? n : 1);
    if (!read_all(fd, buf.data(), n))
      break;
    switch (hdr[0]) {
    case 'R': {
      MsgRun m;
      memcpy(&m, buf.data(), sizeof m);
      cr.runs.push_back(m);
      break;
    }
    case 'B':
      memcpy(&cr.batch, buf.data(), sizeof cr.batch);
      cr.have_batch = true;
      break;
    case 'V':
      cr.viols.emplace_back(buf.data());
      break;
    case 'S':
      cr.samples.emplace_back(buf.data());
      break;
    case 'C':
      cr.crash = buf.data();
      break;
    }
  }
  int st = 0;
  waitpid(pid, &st, 0);
  cr.exit_status = st;
}

struct WorkerStats
{
  uint64_t runs = 0, ok = 0, viol = 0, deadlock = 0, cap = 0, crash = 0, timeout = 0;
  uint64_t steps = 0, switches = 0, branch = 0, nontrivial_runs = 0, max_threads = 0;
  uint64_t det_checked = 0, det_mismatch = 0, det_nonok = 0;
  MsgBatch batch;
  std::unordered_set<uint64_t> ilv;      // distinct interleavings among nontrivial runs
  std::unordered_set<uint64_t> plans;
  std::vector<std::string> samples;
  std::vector<std::string> viols;
  std::vector<std::string> broken;       // crash / timeout / nondeterminism descriptions
};

static void add_batch(MsgBatch &a, const MsgBatch &b)
{
  a.runs += b.runs;
  for (int i = 0; i < MAX_FAULT_KINDS; i++) {
    a.fault_fired[i] += b.fault_fired[i];
    a.fault_offered[i] += b.fault_offered[i];
  }
  for (int i = 0; i < MAX_PROBES; i++)
    a.probes[i] += b.probes[i];
  if (b.incidental && !a.incidental)
    memcpy(a.incidental_first, b.incidental_first, sizeof a.incidental_first);
  a.incidental += b.incidental;
  a.races_checked += b.races_checked;
  a.clock_span_ns += b.clock_span_ns;
  a.arena_bytes += b.arena_bytes;
  a.hb_overflow_runs += b.hb_overflow_runs;
  a.g0_runs += b.g0_runs;
  a.g1_runs += b.g1_runs;
  for (int i = 0; i < 4; i++)
    a.strat_runs[i] += b.strat_runs[i];
  a.tso_runs += b.tso_runs;
  a.tso_stores += b.tso_stores;
  a.tso_delays += b.tso_delays;
}

static pid_t fork_child(int *rfd)
{
  int p[2];
  if (pipe(p) != 0) {
    perror("pipe");
    _exit(2);
  }
  fflush(stdout);
  fflush(stderr);
  pid_t pid = fork();
  if (pid < 0) {
    perror("fork");
    _exit(2);
  }
  if (pid == 0) {
    close(p[0]);
    *rfd = p[1];
    return 0;
  }
  close(p[1]);
  *rfd = p[0];
  return pid;
}

// run one index in a fresh child; used for the determinism re-check, replay and shrinking
static bool run_single_in_child(const RunCfg &cfg, MsgRun &m, std::string *viol, std::string *json_out, unsigned alarm_s)
{
  int fd;
  pid_t pid = fork_child(&fd);
  if (pid == 0) {
    g_child_fd = fd;
    memset(&g_batch, 0, sizeof g_batch);
    install_child_handlers();
    g_cur_index = cfg.index;
    RunOut out;
    std::string rj;
    alarm(alarm_s);
    do_run(cfg, out, &rj);
    alarm(0);
    MsgRun mm;
    memset(&mm, 0, sizeof mm);
    mm.index = cfg.index;
    mm.result = out.result;
    mm.nontrivial = out.nontrivial;
    mm.ev_hash = out.ev_hash;
    mm.ilv_hash = out.ilv_hash;
    mm.plan_hash = out.plan_hash;
    mm.steps = out.steps;
    mm.switches = out.switches;
    mm.branch = out.branch;
    mm.nthreads = (uint32_t)out.nthreads;
    send_msg(fd, 'R', &mm, sizeof mm);
    std::string v = std::to_string(cfg.index) + "\t" + std::to_string(out.result) + "\t" + out.sig + "\t-\t" + out.detail;
    send_msg(fd, 'V', v.c_str(), (uint32_t)v.size() + 1);
    send_msg(fd, 'S', rj.c_str(), (uint32_t)rj.size() + 1);
    _exit(0);
  }
  ChildResult cr;
  read_child(fd, pid, cr);
  close(fd);
  if (cr.runs.empty()) {
    if (viol)
      *viol = "crash\t" + cr.crash;
    return false;
  }
  m = cr.runs[0];
  if (viol && !cr.viols.empty())
    *viol = cr.viols[0];
  if (json_out && !cr.samples.empty())
    *json_out = cr.samples[0];
  return true;
}

static std::string sig_of_viol(const std::string &v)
{
  // idx \t result \t sig \t path \t detail
  size_t a = v.find('\t');
  if (a == std::string::npos)
    return "";
  size_t b = v.find('\t', a + 1);
  if (b == std::string::npos)
    return "";
  size_t c = v.find('\t', b + 1);
  if (c == std::string::npos)
    return "";
  return v.substr(b + 1, c - b - 1);
}

static void json_counts(std::string &j, const char *key, const char *const *names, const uint64_t *vals, int maxn)
{
  j += std::string("\"") + key + "\": {";
  bool first = true;
  char b[200];
  for (int i = 0; i < maxn && names && names[i]; i++) {
    snprintf(b, sizeof b, "%s\"%s\": %lu", first ? "" : ", ", names[i], (unsigned long)vals[i]);
    j += b;
    first = false;
  }
  j += "}";
}

static int cmd_worker(int argc, char **argv)
{
  const char *scen_name = nullptr, *outdir = ".";
  uint64_t master = 1, first = 0, stride = 1, maxruns = ~0ULL;
  double wall = 10;
  int tier = 0, worker = 0, batch = 500;
  unsigned per_run_alarm = 120;
  int pin = -1;
  const char *dump_path = nullptr;
  for (int i = 2; i < argc; i++) {
    std::string a = argv[i];
    auto val = [&]() { return argv[++i]; };
    if (a == "--scenario")
      scen_name = val();
    else if (a == "--outdir")
      outdir = val();
    else if (a == "--seed")
      master = strtoull(val(), 0, 0);
    else if (a == "--first")
      first = strtoull(val(), 0, 0);
    else if (a == "--stride")
      stride = strtoull(val(), 0, 0);
    else if (a == "--maxruns")
      maxruns = strtoull(val(), 0, 0);
    else if (a == "--wall")
      wall = atof(val());
    else if (a == "--tier")
      tier = !strcmp(val(), "thorough") ? 1 : 0;
    else if (a == "--worker")
      worker = atoi(val());
    else if (a == "--batch")
      batch = atoi(val());
    else if (a == "--alarm")
      per_run_alarm = (unsigned)atoi(val());
    else if (a == "--pin")
      pin = atoi(val());
    else if (a == "--dump")
      dump_path = val();
  }
  FILE *dump = dump_path ? fopen(dump_path, "w") : nullptr;
  const SimScenario *sc = scen_name ? find_scenario(scen_name) : nullptr;
  if (!sc) {
    fprintf(stderr, "unknown scenario\n");
    return 2;
  }
  if (!(sc->lanes & rksim_lane_bit())) {
    fprintf(stderr, "scenario %s is not valid in lane %s\n", sc->name, rksim_lane_name());
    return 2;
  }
  if (sc->fork_per_run)
    batch = 1;
  if (pin >= 0) {
    cpu_set_t cs;
    CPU_ZERO(&cs);
    CPU_SET(pin, &cs);
    sched_setaffinity(0, sizeof cs, &cs);
  }
  mkdir(outdir, 0777);
  WorkerStats ws;
  memset(&ws.batch, 0, sizeof ws.batch);
  RunCfg cfg;
  cfg.scen = sc;
  cfg.tier = tier;
  cfg.master = master;
  double t0 = now_s();
  uint64_t next = first;   // next index to run (indices are first + k*stride)
  uint64_t done_runs = 0;
  int samples_left = 3;
  int max_viol_files = 12;
  while (done_runs < maxruns && now_s() - t0 < wall) {
    uint64_t count = std::min<uint64_t>((uint64_t)batch, maxruns - done_runs);
    uint64_t to = next + count * stride;
    int fd;
    pid_t pid = fork_child(&fd);
    if (pid == 0)
      child_batch(fd, cfg, next, to, stride, outdir, worker, samples_left, per_run_alarm, t0 + wall);
    ChildResult cr;
    read_child(fd, pid, cr);
    close(fd);
    for (auto &m : cr.runs) {
      ws.runs++;
      done_runs++;
      if (dump)
        fprintf(dump, "%lu %d %016lx %016lx %lu %lu\n", (unsigned long)m.index, m.result, (unsigned long)m.ev_hash,
                (unsigned long)m.ilv_hash, (unsigned long)m.steps, (unsigned long)m.switches);
      switch (m.result) {
      case RES_OK: ws.ok++; break;
      case RES_VIOLATION: ws.viol++; break;
      case RES_DEADLOCK: ws.deadlock++; break;
      case RES_CAP: ws.cap++; break;
      default: ws.crash++; break;
      }
      ws.steps += m.steps;
      ws.switches += m.switches;
      ws.branch += m.branch;
      if (m.nthreads > ws.max_threads)
        ws.max_threads = m.nthreads;
      if (m.nontrivial) {
        ws.nontrivial_runs++;
        ws.ilv.insert(m.ilv_hash ^ (m.plan_hash * 0x9e3779b97f4a7c15ULL));
      }
      ws.plans.insert(m.plan_hash);
    }
    if (cr.have_batch)
      add_batch(ws.batch, cr.batch);
    for (auto &s : cr.samples)
      if (samples_left > 0) {
        ws.samples.push_back(s);
        samples_left--;
      }
    for (auto &v : cr.viols)
      if ((int)ws.viols.size() < max_viol_files)
        ws.viols.push_back(v);
    uint64_t last_index = cr.runs.empty() ? next - stride : cr.runs.back().index;
    bool progressed = !cr.runs.empty();
    if (!cr.crash.empty() || (!cr.have_batch)) {
      // the child died inside a run: the run in flight is the one after the last reported
      uint64_t bad = progressed ? last_index + stride : next;
      char b[400];
      snprintf(b, sizeof b, "child died at index %lu (%s) exit=%d", (unsigned long)bad, cr.crash.c_str(), cr.exit_status);
      ws.broken.push_back(b);
      ws.crash++;
      ws.runs++;
      done_runs++;
      next = bad + stride;
    } else {
      next = progressed ? last_index + stride : to;
    }
    // determinism self-check: re-run a sample of this batch in a fresh child and compare hashes
    for (auto &m : cr.runs) {
      if (m.index % 97 != 0 && m.result == RES_OK)
        continue;
      if (m.result != RES_OK && m.result != RES_VIOLATION && m.result != RES_DEADLOCK)
        continue;
      if (ws.det_checked >= 400)
        break;
      if (m.result != RES_OK) {
        if (ws.det_nonok >= 4)
          continue;
        ws.det_nonok++;
      }
      RunCfg c2 = cfg;
      c2.index = m.index;
      MsgRun m2;
      std::string v2;
      ws.det_checked++;
      if (!run_single_in_child(c2, m2, &v2, nullptr, per_run_alarm) || m2.ev_hash != m.ev_hash ||
          m2.ilv_hash != m.ilv_hash || m2.result != m.result || m2.steps != m.steps) {
        ws.det_mismatch++;
        char b[300];
        snprintf(b, sizeof b, "nondeterminism at index %lu: ev %016lx/%016lx ilv %016lx/%016lx res %d/%d steps %lu/%lu",
                 (unsigned long)m.index, (unsigned long)m.ev_hash, (unsigned long)m2.ev_hash, (unsigned long)m.ilv_hash,
                 (unsigned long)m2.ilv_hash, m.result, m2.result, (unsigned long)m.steps, (unsigned long)m2.steps);
        ws.broken.push_back(b);
      }
    }
    if ((int)ws.viols.size() >= max_viol_files)
      break;
  }
  double wall_used = now_s() - t0;
  if (dump)
    fclose(dump);
  // summary json
  std::string j = "{";
  char b[512];
  snprintf(b, sizeof b,
           "\"worker\": %d, \"lane\": \"%s\", \"scenario\": \"%s\", \"runs\": %lu, \"ok\": %lu, \"violations\": %lu, "
           "\"deadlocks\": %lu, \"step_cap\": %lu, \"crashes\": %lu, \"wall_s\": %.3f, \"first_index\": %lu, "
           "\"next_index\": %lu, \"stride\": %lu, ",
           worker, rksim_lane_name(), sc->name, (unsigned long)ws.runs, (unsigned long)ws.ok, (unsigned long)ws.viol,
           (unsigned long)ws.deadlock, (unsigned long)ws.cap, (unsigned long)ws.crash, wall_used, (unsigned long)first,
           (unsigned long)next, (unsigned long)stride);
  j += b;
  snprintf(b, sizeof b,
           "\"steps\": %lu, \"switches\": %lu, \"branch_points\": %lu, \"nontrivial_runs\": %lu, "
           "\"distinct_interleavings\": %zu, \"distinct_plans\": %zu, \"max_threads\": %lu, \"det_checked\": %lu, "
           "\"det_mismatch\": %lu, \"incidental\": %lu, \"races_checked\": %lu, \"clock_span_ns\": %lu, "
           "\"arena_bytes\": %lu, \"hb_overflow_runs\": %lu, \"g0_runs\": %lu, \"g1_runs\": %lu, "
           "\"strategy_runs\": {\"walk\": %lu, \"pct\": %lu, \"delay\": %lu}, ",
           (unsigned long)ws.steps, (unsigned long)ws.switches, (unsigned long)ws.branch,
           (unsigned long)ws.nontrivial_runs, ws.ilv.size(), ws.plans.size(), (unsigned long)ws.max_threads,
           (unsigned long)ws.det_checked, (unsigned long)ws.det_mismatch, (unsigned long)ws.batch.incidental,
           (unsigned long)ws.batch.races_checked, (unsigned long)ws.batch.clock_span_ns,
           (unsigned long)ws.batch.arena_bytes, (unsigned long)ws.batch.hb_overflow_runs,
           (unsigned long)ws.batch.g0_runs, (unsigned long)ws.batch.g1_runs, (unsigned long)ws.batch.strat_runs[0],
           (unsigned long)ws.batch.strat_runs[1], (unsigned long)ws.batch.strat_runs[2]);
  j += b;
  snprintf(b, sizeof b, "\"tso_runs\": %lu, \"tso_buffered_stores\": %lu, \"tso_delay_decisions\": %lu, ", (unsigned long)ws.batch.tso_runs,
           (unsigned long)ws.batch.tso_stores, (unsigned long)ws.batch.tso_delays);
  j += b;
  j += "\"incidental_first\": \"" + jescape(ws.batch.incidental_first) + "\", ";
  json_counts(j, "faults_fired", sc->fault_names, ws.batch.fault_fired, MAX_FAULT_KINDS);
  j += ", ";
  json_counts(j, "faults_offered", sc->fault_names, ws.batch.fault_offered, MAX_FAULT_KINDS);
  j += ", ";
  json_counts(j, "probes", sc->probe_names, ws.batch.probes, MAX_PROBES);
  j += ", \"samples\": [";
  for (size_t i = 0; i < ws.samples.size(); i++)
    j += (i ? "," : "") + ws.samples[i];
  j += "], \"violation_list\": [";
  for (size_t i = 0; i < ws.viols.size(); i++)
    j += std::string(i ? "," : "") + "\"" + jescape(ws.viols[i].c_str()) + "\"";
  j += "], \"broken\": [";
  for (size_t i = 0; i < ws.broken.size(); i++)
    j += std::string(i ? "," : "") + "\"" + jescape(ws.broken[i].c_str()) + "\"";
  j += "]}\n";
  char pth[512];
  snprintf(pth, sizeof pth, "%s/w%d.summary.json", outdir, worker);
  FILE *f = fopen(pth, "w");
  if (f) {
    fwrite(j.data(), 1, j.size(), f);
    fclose(f);
  }
  snprintf(pth, sizeof pth, "%s/w%d.hashes", outdir, worker);
  f = fopen(pth, "wb");
  if (f) {
    for (uint64_t h : ws.ilv)
      fwrite(&h, 8, 1, f);
    fclose(f);
  }
  return 0;
}

// ---------------------------------------------------------------------------------------------
static bool load_replay(const char *path, RunCfg &cfg, std::string &exp_sig, uint64_t &exp_ev, std::string &err)
{
  FILE *f = fopen(path, "r");
  if (!f) {
    err = "cannot open replay file";
    return false;
  }
  std::string s;
  char buf[65536];
  size_t n;
  while ((n = fread(buf, 1, sizeof buf, f)) > 0)
    s.append(buf, n);
  fclose(f);
  JVal v;
  JParser p{s.c_str()};
  if (!p.parse(v) || v.t != JVal::OBJ) {
    err = "replay file is not valid JSON";
    return false;
  }
  const JVal *sc = v.get("scenario");
  if (!sc) {
    err = "no scenario";
    return false;
  }
  cfg.scen = find_scenario(sc->str.c_str());
  if (!cfg.scen) {
    err = "unknown scenario " + sc->str;
    return false;
  }
  const JVal *lane = v.get("lane");
  if (lane && lane->str != rksim_lane_name()) {
    err = "replay file is for lane " + lane->str;
    return false;
  }
  if (auto t = v.get("tier"))
    cfg.tier = (int)t->num;
  if (auto t = v.get("master_seed"))
    cfg.master = (uint64_t)t->num;
  if (auto t = v.get("index"))
    cfg.index = (uint64_t)t->num;
  cfg.replay = true;
  if (auto pl = v.get("plan"))
    for (auto &x : pl->arr)
      cfg.plan_in.push_back((uint32_t)x.num);
  if (auto rr = v.get("run_rle"))
    for (auto &x : rr->arr)
      if (x.arr.size() == 2)
        for (size_t k = 0; k < (size_t)x.arr[1].num; k++)
          cfg.run_in.push_back((uint32_t)x.arr[0].num);
  if (auto vi = v.get("violation"))
    if (auto sg = vi->get("signature"))
      exp_sig = sg->str;
  exp_ev = 0;
  if (auto ex = v.get("expect"))
    if (auto h = ex->get("ev_hash"))
      exp_ev = strtoull(h->str.c_str(), 0, 16);
  return true;
}

static int cmd_replay(int argc, char **argv)
{
  const char *file = nullptr;
  bool verbose = false;
  for (int i = 2; i < argc; i++) {
    std::string a = argv[i];
    if (a == "--file")
      file = argv[++i];
    else if (a == "--verbose")
      verbose = true;
  }
  RunCfg cfg;
  std::string exp_sig, err;
  uint64_t exp_ev;
  if (!file || !load_replay(file, cfg, exp_sig, exp_ev, err)) {
    printf("REPLAY error: %s\n", err.c_str());
    return 2;
  }
  cfg.verbose = verbose;
  MsgRun m;
  std::string viol, js;
  if (!run_single_in_child(cfg, m, &viol, &js, 120)) {
    printf("REPLAY crashed: %s\n", viol.c_str());
    return 2;
  }
  std::string sig = sig_of_viol(viol);
  bool same_hash = m.ev_hash == exp_ev;
  bool same_sig = sig == exp_sig;
  printf("REPLAY result=%d signature=%s expected=%s ev_hash=%016lx expected=%016lx %s\n", m.result, sig.c_str(),
         exp_sig.c_str(), (unsigned long)m.ev_hash, (unsigned long)exp_ev,
         (same_hash && same_sig) ? "REPRODUCED" : "DIVERGED");
  if (verbose)
    printf("%s\n", js.c_str());
  if (!(same_hash && same_sig))
    return 2;
  return m.result == RES_OK ? 0 : 1;
}

// decision-sequence shrinker: zero spans, cut the tail, lower values; a candidate is accepted iff
// it yields the same violation signature
static int cmd_shrink(int argc, char **argv)
{
  const char *file = nullptr, *outp = nullptr;
  int budget = 2000;
  double wall = 120;
  for (int i = 2; i < argc; i++) {
    std::string a = argv[i];
    if (a == "--file")
      file = argv[++i];
    else if (a == "--out")
      outp = argv[++i];
    else if (a == "--budget")
      budget = atoi(argv[++i]);
    else if (a == "--wall")
      wall = atof(argv[++i]);
  }
  RunCfg cfg;
  std::string exp_sig, err;
  uint64_t exp_ev;
  if (!file || !outp || !load_replay(file, cfg, exp_sig, exp_ev, err)) {
    printf("SHRINK error: %s\n", err.c_str());
    return 2;
  }
  double t0 = now_s();
  int tried = 0;
  std::string best_json;
  auto test = [&](const RunCfg &c, std::string *js) -> bool {
    if (tried >= budget || now_s() - t0 > wall)
      return false;
    tried++;
    MsgRun m;
    std::string viol, j;
    if (!run_single_in_child(c, m, &viol, &j, 60))
      return false;
    if (sig_of_viol(viol) != exp_sig || m.result != RES_VIOLATION)
      return false;
    if (js)
      *js = j;
    return true;
  };
  // sanity: the input itself must reproduce
  if (!test(cfg, &best_json)) {
    printf("SHRINK input does not reproduce signature %s\n", exp_sig.c_str());
    return 2;
  }
  size_t orig_run = cfg.run_in.size(), orig_plan = cfg.plan_in.size();
  auto nonzero = [](const std::vector<uint32_t> &v) {
    size_t k = 0;
    for (uint32_t x : v)
      k += x != 0;
    return k;
  };
  size_t orig_nz = nonzero(cfg.run_in);
  // 1. all run decisions zero
  {
    RunCfg c = cfg;
    c.run_in.clear();
    std::string j;
    if (test(c, &j)) {
      cfg = c;
      best_json = j;
    }
  }
  // 2. cut the tail (exhausted input reads as 0)
  {
    size_t lo = 0, hi = cfg.run_in.size();
    while (lo < hi) {
      size_t mid = (lo + hi) / 2;
      RunCfg c = cfg;
      c.run_in.resize(mid);
      std::string j;
      if (test(c, &j)) {
        hi = mid;
        cfg = c;
        best_json = j;
      } else
        lo = mid + 1;
    }
  }
  // 3. zero spans, halving chunk size
  for (size_t chunk = cfg.run_in.size() / 2; chunk >= 1; chunk /= 2) {
    for (size_t s = 0; s < cfg.run_in.size(); s += chunk) {
      bool any = false;
      for (size_t k = s; k < s + chunk && k < cfg.run_in.size(); k++)
        any |= cfg.run_in[k] != 0;
      if (!any)
        continue;
      RunCfg c = cfg;
      for (size_t k = s; k < s + chunk && k < c.run_in.size(); k++)
        c.run_in[k] = 0;
      std::string j;
      if (test(c, &j)) {
        cfg = c;
        best_json = j;
      }
    }
    if (chunk == 1)
      break;
  }
  // 4. delete single zero-runs is not attempted (positions matter); lower remaining values
  for (size_t k = 0; k < cfg.run_in.size(); k++) {
    if (cfg.run_in[k] > 1) {
      RunCfg c = cfg;
      c.run_in[k] = 1;
      std::string j;
      if (test(c, &j)) {
        cfg = c;
        best_json = j;
      }
    }
  }
  // 5. plan: towards 0 (smallest sizes / no knobs)
  for (size_t k = 0; k < cfg.plan_in.size(); k++) {
    uint32_t v = cfg.plan_in[k];
    uint32_t cands[3] = {0, v / 2, v ? v - 1 : 0};
    for (uint32_t cv : cands) {
      if (cv >= cfg.plan_in[k])
        continue;
      RunCfg c = cfg;
      c.plan_in[k] = cv;
      std::string j;
      if (test(c, &j)) {
        cfg = c;
        best_json = j;
        break;
      }
    }
  }
  // trailing zeros carry no information
  while (!cfg.run_in.empty() && cfg.run_in.back() == 0)
    cfg.run_in.pop_back();
  {
    RunCfg c = cfg;
    std::string j;
    budget++;
    if (test(c, &j))
      best_json = j;
  }
  FILE *f = fopen(outp, "w");
  if (!f) {
    printf("SHRINK cannot write %s\n", outp);
    return 2;
  }
  fwrite(best_json.data(), 1, best_json.size(), f);
  fclose(f);
  printf("SHRINK ok candidates=%d run_decisions %zu(nonzero %zu) -> %zu(nonzero %zu) plan %zu wall=%.1fs out=%s\n", tried,
         orig_run, orig_nz, cfg.run_in.size(), nonzero(cfg.run_in), orig_plan, now_s() - t0, outp);
  return 0;
}

static int cmd_one(int argc, char **argv)
{
  RunCfg cfg;
  const char *scen_name = nullptr;
  bool json = false;
  for (int i = 2; i < argc; i++) {
    std::string a = argv[i];
    if (a == "--scenario")
      scen_name = argv[++i];
    else if (a == "--seed")
      cfg.master = strtoull(argv[++i], 0, 0);
    else if (a == "--index")
      cfg.index = strtoull(argv[++i], 0, 0);
    else if (a == "--tier")
      cfg.tier = !strcmp(argv[++i], "thorough") ? 1 : 0;
    else if (a == "--verbose")
      cfg.verbose = true;
    else if (a == "--json")
      json = true;
  }
  cfg.scen = scen_name ? find_scenario(scen_name) : nullptr;
  if (!cfg.scen) {
    fprintf(stderr, "unknown scenario\n");
    return 2;
  }
  MsgRun m;
  std::string viol, js;
  if (!run_single_in_child(cfg, m, &viol, &js, 120)) {
    printf("ONE crashed: %s\n", viol.c_str());
    return 2;
  }
  printf("ONE index=%lu result=%d steps=%lu switches=%lu threads=%u ev=%016lx ilv=%016lx viol=%s\n",
         (unsigned long)cfg.index, m.result, (unsigned long)m.steps, (unsigned long)m.switches, m.nthreads,
         (unsigned long)m.ev_hash, (unsigned long)m.ilv_hash, viol.c_str());
  if (json)
    printf("%s\n", js.c_str());
  return m.result == RES_OK ? 0 : 1;
}

extern "C" void rksim_warmup();   // lane DSO: touch lazily initialised library state outside any run

int main(int argc, char **argv)
{
  // identical address-space layout in every process: disable ASLR and re-exec once
  if (!getenv("RKSIM_NOASLR")) {
    int pers = personality(0xffffffff);
    if (pers != -1 && !(pers & ADDR_NO_RANDOMIZE)) {
      if (personality(pers | ADDR_NO_RANDOMIZE) != -1) {
        setenv("RKSIM_NOASLR", "1", 1);
        execv("/proc/self/exe", argv);
      }
    }
  }
  setvbuf(stdout, nullptr, _IOLBF, 0);
  if (argc < 2) {
    fprintf(stderr, "usage: %s worker|replay|shrink|one|list ...\n", argv[0]);
    return 2;
  }
  arena_init();
  rksim_warmup();
  image_snapshot();
  std::string cmd = argv[1];
  if (cmd == "list") {
    for (auto s : registry())
      if (s->lanes & rksim_lane_bit())
        printf("%s %s\n", s->name, s->property);
    return 0;
  }
  if (cmd == "worker")
    return cmd_worker(argc, argv);
  if (cmd == "replay")
    return cmd_replay(argc, argv);
  if (cmd == "shrink")
    return cmd_shrink(argc, argv);
  if (cmd == "one")
    return cmd_one(argc, argv);
  fprintf(stderr, "unknown command %s\n", cmd.c_str());
  return 2;
}
