// rksim scheduler core: real threads parked on futex words, one baton, every choice from the
// decision stream.
#include <errno.h>
#include <linux/futex.h>
#include <sched.h>
#include <stdarg.h>
#include <stdio.h>
#include <sys/mman.h>
#include <sys/syscall.h>
#include <unistd.h>

#include <signal.h>
#include "rt.h"

namespace rksim {

Sim g;
__thread Thread *tl_self = nullptr;
__thread int tl_rt_depth = 0;

long raw_syscall6(long n, long a, long b, long c, long d, long e, long f)
{
  long ret;
  register long r10 __asm__("r10") = d;
  register long r8 __asm__("r8") = e;
  register long r9 __asm__("r9") = f;
  __asm__ volatile("syscall"
                   : "=a"(ret)
                   : "a"(n), "D"(a), "S"(b), "d"(c), "r"(r10), "r"(r8), "r"(r9)
                   : "rcx", "r11", "memory");
  return ret;
}

static inline void fwait(volatile int *w, int val)
{
  raw_syscall6(SYS_futex, (long)w, FUTEX_WAIT_PRIVATE, val, 0, 0, 0);
}
static inline void fwake(volatile int *w)
{
  raw_syscall6(SYS_futex, (long)w, FUTEX_WAKE_PRIVATE, 1, 0, 0, 0);
}

static void park(Thread *me)
{
  while (__atomic_load_n(&me->go, __ATOMIC_ACQUIRE) == 0)
    fwait(&me->go, 0);
  __atomic_store_n(&me->go, 0, __ATOMIC_RELAXED);
}
static void release_thread(Thread *t)
{
  __atomic_store_n(&t->go, 1, __ATOMIC_RELEASE);
  fwake(&t->go);
}

static void signal_done(int res)
{
  g.result = res;
  __atomic_store_n(&g.done, 1 + res, __ATOMIC_RELEASE);
  raw_syscall6(SYS_futex, (long)&g.done, FUTEX_WAKE_PRIVATE, 1, 0, 0, 0);
}

void abort_run(int res)
{
  signal_done(res);
  // the controller reports and _exit()s the process; never resume
  volatile int never = 0;
  for (;;)
    fwait(&never, 0);
}

// ---------------------------------------------------------------------------------------------
// thread stacks: fixed region, slot per simulated thread id -> pthread_t values and stack
// addresses repeat across runs and processes
static const uintptr_t STACK_BASE = 0x7d0000000000ULL;
static const size_t STACK_SLOT = 2048 * 1024;  // reserved, not committed: deep recursion (releasing a chain of thousands of objects) must fit
static const int MAX_THREADS = 2048;
static bool stacks_mapped = false;
static int (*real_pthread_create)(pthread_t *, const pthread_attr_t *, void *(*)(void *), void *);
static int (*real_pthread_join)(pthread_t, void **);

extern "C" void *rksim_dlsym_next(const char *name);

static void map_stacks()
{
  if (stacks_mapped)
    return;
  void *p = mmap((void *)STACK_BASE, STACK_SLOT * MAX_THREADS, PROT_READ | PROT_WRITE,
                 MAP_PRIVATE | MAP_ANONYMOUS | MAP_NORESERVE | MAP_FIXED_NOREPLACE, -1, 0);
  if (p != (void *)STACK_BASE) {
    fprintf(stderr, "rksim: cannot map thread stacks at fixed address (%p)\n", p);
    _exit(2);
  }
  stacks_mapped = true;
  real_pthread_create = (decltype(real_pthread_create))rksim_dlsym_next("pthread_create");
  real_pthread_join = (decltype(real_pthread_join))rksim_dlsym_next("pthread_join");
}

struct Finisher
{
  Thread *t = nullptr;
  ~Finisher()
  {
    if (t)
      thread_finish(t);
  }
};

static void *trampoline(void *p)
{
  Thread *t = (Thread *)p;
  tl_self = t;
  tl_rt_depth = 0;
#ifndef RKSIM_ASAN_LANE  // (ASan installs and later unmaps an alternate stack of its own for every thread)
  {
    // an alternate signal stack per simulated thread: a stack overflow in the code under test is then reported by the crash
    // handler (violation 'crash:signal-11' with the decisions so far) instead of killing the child without a word
    static char altstacks[MAX_THREADS][65536];
    stack_t ss;
    ss.ss_sp = altstacks[t->id % MAX_THREADS];
    ss.ss_size = sizeof altstacks[0];
    ss.ss_flags = 0;
    sigaltstack(&ss, nullptr);
  }
#endif
  park(t);
  // registered first => destroyed last: thread_local destructors of the code under test still
  // run as part of the simulated thread (holding the baton)
  static thread_local Finisher fin;
  fin.t = t;
  t->ret = t->fn(t->arg);
  return nullptr;
}

Thread *spawn_thread(void *(*fn)(void *), void *arg, Thread *parent)
{
  map_stacks();
  if (g.nthreads >= MAX_THREADS) {
    add_violation(1, "rt-limit", "more than MAX_THREADS simulated threads");
    abort_run(RES_CRASH);
  }
  Thread *t = (Thread *)calloc(1, sizeof(Thread));
  t->id = g.nthreads;
  t->fn = fn;
  t->arg = arg;
  t->state = Thread::RUNNABLE;
  t->op = OP_START;
  int slot;
  if (g.free_slots.n) {
    size_t best = 0;
    for (size_t i = 1; i < g.free_slots.n; i++)
      if (g.free_slots[i] < g.free_slots[best])
        best = i;
    slot = g.free_slots[best];
    g.free_slots.erase_at(best);
  } else {
    slot = g.slots_used++;
  }
  t->slot = slot;
  t->stack_lo = STACK_BASE + (uintptr_t)slot * STACK_SLOT;
  t->stack_hi = t->stack_lo + STACK_SLOT;
  t->prio = (int64_t)(g.rng_run.next() >> 2);
  if (g.replaying)
    t->prio = 0;
  g.threads[g.nthreads++] = t;
  g.nlive++;
  if (t->id >= HB_MAXT) {
    g.hb_overflow = true;
  }
  hb_thread_start(t, parent);
  pthread_attr_t at;
  pthread_attr_init(&at);
  pthread_attr_setstack(&at, (void *)(t->stack_lo + 4096), STACK_SLOT - 4096);
  int rc = real_pthread_create(&t->real, &at, trampoline, t);
  pthread_attr_destroy(&at);
  if (rc != 0) {
    fprintf(stderr, "rksim: real pthread_create failed rc=%d\n", rc);
    _exit(2);
  }
  return t;
}

Thread *find_thread_by_real(pthread_t p)
{
  for (int i = g.nthreads - 1; i >= 0; i--)
    if (pthread_equal(g.threads[i]->real, p))
      return g.threads[i];
  return nullptr;
}

// ---------------------------------------------------------------------------------------------
// decisions
static inline uint32_t take_run_in(uint32_t n)
{
  uint32_t v = 0;
  if (g.run_pos < g.run_in.n)
    v = g.run_in[g.run_pos];
  g.run_pos++;
  return v % n;
}

uint32_t run_decide(uint32_t n)
{
  if (n <= 1)
    return 0;
  uint32_t v;
  if (g.replaying)
    v = take_run_in(n);
  else
    v = g.rng_run.below(n);
  g.run_dec.push(v);
  return v;
}

static inline void hash_mix(uint64_t &h, uint64_t v)
{
  h ^= v + 0x9e3779b97f4a7c15ULL + (h << 6) + (h >> 2);
  h *= 0x100000001b3ULL;
}

// SyncModel queries (interpose.cpp)
bool sync_op_enabled(Thread *t);

static inline bool enabled(Thread *t)
{
  switch (t->op) {
  case OP_LOCK:
  case OP_SEM_WAIT:
  case OP_ONCE:
  case OP_RWLOCK:
    return sync_op_enabled(t);
  case OP_JOIN:
    return g.threads[t->op_target]->state == Thread::FINISHED;
  case OP_COND_BLOCK:
    return t->cond_signaled || t->spurious_ok;
  case OP_FUTEX_BLOCK:
    return t->futex_woken;
  default:
    return true;
  }
}

static Thread *choose(Thread **list, int n, Thread *me, bool me_in)
{
  // list[0] == me if me_in
  uint32_t v;
  if (g.replaying) {
    v = take_run_in((uint32_t)n);
  } else if (g.fair || g.strategy == STRAT_WALK) {
    uint32_t stay = g.fair ? 0 : g.stay_num;
    if (me_in && stay && g.rng_run.below(1000) < stay)
      v = 0;
    else if (me_in && stay)
      v = 1 + g.rng_run.below((uint32_t)n - 1);
    else
      v = g.rng_run.below((uint32_t)n);
  } else if (g.strategy == STRAT_PCT) {
    for (int i = 0; i < g.pct_depth; i++)
      if (g.pct_points[i] && g.steps >= g.pct_points[i] && me_in) {
        me->prio = --g.lowest_prio;
        g.pct_points[i] = 0;
      }
    if (me_in && me->consec > g.demote_after) {
      me->prio = --g.lowest_prio;
      me->consec = 0;
    }
    int best = 0;
    for (int i = 1; i < n; i++)
      if (list[i]->prio > list[best]->prio)
        best = i;
    v = (uint32_t)best;
  } else {  // STRAT_DELAY: non-preemptive, lowest id after me on block; bounded random delays
    v = 0;
    if (g.delay_budget > 0 && g.rng_run.below(g.pct_est ? (uint32_t)g.pct_est : 200) < 4) {
      g.delay_budget--;
      v = me_in ? 1 + g.rng_run.below((uint32_t)n - 1) : g.rng_run.below((uint32_t)n);
    } else if (me_in && me->consec > g.demote_after) {
      v = 1 + g.rng_run.below((uint32_t)n - 1);
    }
  }
  g.run_dec.push(v);
  return list[v];
}

void pick_next(Thread *me)
{
  if (g.tso)
    tso_background();
  // build the enabled list: me first (if enabled), then ascending id
  static Thread *list_store[MAX_THREADS];
  Thread **list = list_store;
  int n = 0;
  bool me_alive = me && me->state != Thread::FINISHED;
  bool me_in = false;
  bool me_yield = me_alive && me->op == OP_YIELD;
  if (me_alive && !me_yield && enabled(me)) {
    list[n++] = me;
    me_in = true;
  }
  for (int i = 0; i < g.nthreads; i++) {
    Thread *t = g.threads[i];
    if (t == me || t->state == Thread::FINISHED)
      continue;
    if (enabled(t))
      list[n++] = t;
  }
  if (me_yield && n == 0) {
    list[n++] = me;
    me_in = true;
  }
  if (n == 0) {
    if (g.nlive == 0) {
      signal_done(g.nviol ? RES_VIOLATION : RES_OK);
      return;  // caller (a finishing thread) exits
    }
    abort_run(RES_DEADLOCK);
  }
  Thread *next;
  if (n == 1) {
    next = list[0];
  } else {
    g.branch_points++;
    next = choose(list, n, me, me_in);
    uint64_t set = 0;
    for (int i = 0; i < n; i++)
      hash_mix(set, (uint64_t)list[i]->id * 131 + list[i]->op);
    hash_mix(g.ev_hash, set);
    hash_mix(g.ev_hash, ((uint64_t)g.run_dec.n << 32) ^ ((uint64_t)next->id << 8) ^ next->op);
  }
  if (next == me) {
    me->consec++;
    return;
  }
  if (me_alive) {
    me->consec = 0;
    if (me->op == OP_LOCK || me->op == OP_SEM_WAIT || me->op == OP_JOIN || me->op == OP_COND_BLOCK ||
        me->op == OP_FUTEX_BLOCK || me->op == OP_ONCE || me->op == OP_RWLOCK) {
      if (!me_in)
        me->nblocked++;
    }
  }
  g.switches++;
  if (g.switch_log.n < 600) {
    g.switch_log.push((uint32_t)g.steps);
    g.switch_log.push(me ? (uint32_t)me->id : 9999u);
    g.switch_log.push((uint32_t)next->id);
  }
  g.cur = next;
  next->consec = 0;
  release_thread(next);
  if (me_alive)
    park(me);
}

static inline bool serialising(OpKind k)
{
  switch (k) {
  case OP_READ:
  case OP_WRITE:
  case OP_VREAD:
  case OP_VWRITE:
  case OP_ALOAD:
  case OP_ASTORE:
  case OP_USER:
  case OP_START:
    return false;
  default:
    return true;  // locked operations, fences, system calls
  }
}

void sched_point(Thread *me, OpKind k, uintptr_t addr)
{
  if (g.tso) {
    tso_capture(me);
    if (serialising(k))
      tso_flush_all(me);
  }
  g.steps++;
  me->nsteps++;
  if (g.steps >= g.step_cap)
    abort_run(RES_CAP);
  me->op = k;
  me->op_addr = addr;
  hash_mix(g.ilv_hash, ((uint64_t)me->id << 8) | k);
  pick_next(me);
}

void thread_finish(Thread *t)
{
  // still holding the baton
  if (g.tso)
    tso_flush_all(t);
  g.steps++;
  hash_mix(g.ilv_hash, ((uint64_t)t->id << 8) | OP_EXIT);
  t->state = Thread::FINISHED;
  t->op = OP_EXIT;
  g.nlive--;
  tl_self = nullptr;
  pick_next(t);
}

// the simulated thread has finished and is being joined: wait for the OS thread to be gone (it is
// past its last instruction of interest) and hand its stack slot - and with it its pthread_t - out again
void sim_real_join_and_recycle(Thread *t)
{
  if (t->joined_real)
    return;
  real_pthread_join(t->real, nullptr);
  t->joined_real = true;
  g.free_slots.push(t->slot);
}

void sim_join_real_threads()
{
  for (int i = 0; i < g.nthreads; i++) {
    Thread *t = g.threads[i];
    if (!t->joined_real) {
      real_pthread_join(t->real, nullptr);
      t->joined_real = true;
    }
  }
}

static void *t0_main(void *)
{
  g.scen->run();
  return nullptr;
}

void sim_reset_run_state()
{
  for (int i = 0; i < g.nthreads; i++)
    free(g.threads[i]);
  if (!g.threads)
    g.threads = (Thread **)calloc(MAX_THREADS, sizeof(Thread *));
  g.nthreads = 0;
  g.nlive = 0;
  g.cur = nullptr;
  g.fair = false;
  g.phase = 0;
  g.steps = g.switches = g.branch_points = 0;
  g.seq = 0;
  g.ev_hash = 0xcbf29ce484222325ULL;
  g.ilv_hash = 0xcbf29ce484222325ULL;
  g.plan_dec.clear();
  g.run_dec.clear();
  g.plan_pos = g.run_pos = 0;
  g.diverged = false;
  g.events.clear();
  memset(g.fault_fired, 0, sizeof g.fault_fired);
  memset(g.fault_offered, 0, sizeof g.fault_offered);
  memset(g.probes, 0, sizeof g.probes);
  g.nviol = 0;
  g.incidental = 0;
  g.incidental_first[0] = 0;
  g.done = 0;
  g.result = 0;
  g.hb_on = true;
  g.hb_overflow = false;
  g.clock_ns = 1000000000ULL;
  g.races_checked = 0;
  g.notes_len = 0;
  g.notes[0] = 0;
  g.lowest_prio = 0;
  g.free_slots.clear();
  g.slots_used = 0;
  g.switch_log.clear();
  g.cores = 4;
  g.affinity = 0;
  g.spurious = 0;
  g.clock_jumps = 0;
  g.clock_ties = 0;
  g.step_cap = 200000;
  g.tso = false;
  g.tso_stores = g.tso_delays = 0;
  tso_reset();
  sync_reset();
  hb_reset();
}

void sim_start_run()
{
  map_stacks();
  g.active = 1;
  Thread *t0 = spawn_thread(t0_main, nullptr, nullptr);
  g.cur = t0;
  release_thread(t0);
  while (__atomic_load_n(&g.done, __ATOMIC_ACQUIRE) == 0)
    raw_syscall6(SYS_futex, (long)&g.done, FUTEX_WAIT_PRIVATE, 0, 0, 0, 0);
  if (g.result == RES_OK || (g.result == RES_VIOLATION && g.nlive == 0)) {
    sim_join_real_threads();
  }
  g.active = 0;
}

void add_violation(int fatal, const char *cls, const char *detail)
{
  if (g.nviol < MAX_VIOL) {
    Violation &v = g.viol[g.nviol++];
    snprintf(v.cls, sizeof v.cls, "%s", cls);
    snprintf(v.detail, sizeof v.detail, "%s", detail);
    v.fatal = fatal;
  }
}

}  // namespace rksim

using namespace rksim;

// ---------------------------------------------------------------------------------------------
// public API
extern "C" {

uint32_t sim_plan(uint32_t n)
{
  if (n <= 1)
    return 0;
  uint32_t v;
  if (g.replaying) {
    v = 0;
    if (g.plan_pos < g.plan_in.n)
      v = g.plan_in[g.plan_pos];
    g.plan_pos++;
    v %= n;
  } else {
    v = g.rng_plan.below(n);
  }
  g.plan_dec.push(v);
  return v;
}

uint32_t sim_choice(uint32_t n)
{
  return run_decide(n);
}

int sim_fault(int kind, uint32_t num, uint32_t den)
{
  if (g.fair)
    return 0;
  if (kind >= 0 && kind < MAX_FAULT_KINDS)
    g.fault_offered[kind]++;
  uint32_t v;
  if (g.replaying) {
    v = take_run_in(2);
  } else {
    v = g.rng_run.below(den) < num ? 1 : 0;
  }
  g.run_dec.push(v);
  if (v && kind >= 0 && kind < MAX_FAULT_KINDS)
    g.fault_fired[kind]++;
  if (v) {
    hash_mix(g.ev_hash, 0xfa000000ULL + (uint64_t)kind);
  }
  return (int)v;
}

uint64_t sim_event(uint32_t code, uint64_t a, uint64_t b)
{
  uint64_t s = ++g.seq;
  EventRec e;
  e.code = code;
  e.tid = tl_self ? tl_self->id : -1;
  e.a = a;
  e.b = b;
  if (g.events.n < 100000)
    g.events.push(e);
  hash_mix(g.ev_hash, ((uint64_t)code << 32) ^ (uint64_t)(uint32_t)e.tid);
  hash_mix(g.ev_hash, a);
  hash_mix(g.ev_hash, b);
  return s;
}

uint64_t sim_seq(void) { return g.seq; }
uint64_t sim_steps(void) { return g.steps; }
int sim_self(void) { return tl_self ? tl_self->id : -1; }
int sim_nthreads_alive(void) { return g.nlive; }
int sim_failed(void) { return g.nviol; }

static void vfail(int fatal, const char *cls, const char *fmt, va_list ap)
{
  char buf[400];
  vsnprintf(buf, sizeof buf, fmt, ap);
  add_violation(fatal, cls, buf);
  if (fatal && tl_self && g.active)
    abort_run(RES_VIOLATION);
}

void sim_fail(const char *cls, const char *fmt, ...)
{
  va_list ap;
  va_start(ap, fmt);
  vfail(1, cls, fmt, ap);
  va_end(ap);
}
void sim_fail_nonfatal(const char *cls, const char *fmt, ...)
{
  va_list ap;
  va_start(ap, fmt);
  vfail(0, cls, fmt, ap);
  va_end(ap);
}

void sim_probe(int id)
{
  if (id >= 0 && id < MAX_PROBES)
    g.probes[id]++;
}

void sim_note(const char *fmt, ...)
{
  va_list ap;
  va_start(ap, fmt);
  if (g.notes_len + 2 < sizeof g.notes) {
    int k = vsnprintf(g.notes + g.notes_len, sizeof g.notes - g.notes_len - 1, fmt, ap);
    if (k > 0) {
      g.notes_len += (size_t)k;
      if (g.notes_len >= sizeof g.notes - 1)
        g.notes_len = sizeof g.notes - 2;
    }
  }
  va_end(ap);
}

void sim_point(void)
{
  if (in_sim())
    sched_point(tl_self, OP_USER, 0);
}
void sim_yield(void)
{
  if (in_sim())
    sched_point(tl_self, OP_YIELD, 0);
}
void sim_work(uint32_t k)
{
  if (!in_sim())
    return;
  for (uint32_t i = 0; i < k; i++)
    sched_point(tl_self, OP_USER, 0);
}
void sim_set_fair(int on)
{
  g.fair = on != 0;
  if (on && g.tso)
    for (int i = 0; i < g.nthreads; i++)
      if (g.threads[i]->state != Thread::FINISHED)
        tso_flush_all(g.threads[i]);
  if (on)  // a wake-up permission granted earlier must not mask a lost notification
    for (int i = 0; i < g.nthreads; i++)
      if (g.threads[i]->op == OP_COND_BLOCK)
        g.threads[i]->spurious_ok = false;
}
void sim_phase(int phase) { g.phase = phase; }
int sim_get_phase(void) { return g.phase; }
void sim_set_cores(int n) { g.cores = n; }
void sim_set_affinity(int n) { g.affinity = n; }
void sim_set_spurious(int on) { g.spurious = on; }
void sim_set_clock_jumps(int on) { g.clock_jumps = on; }
void sim_set_clock_ties(int on) { g.clock_ties = on; }
void sim_set_step_cap(uint64_t cap) { g.step_cap = cap; }
void sim_set_tso(int on) { g.tso = on != 0; }

void sim_tag_push(int tag)
{
  Thread *t = tl_self;
  if (!t)
    return;
  if (t->tag_depth < 16)
    t->tag_stack[t->tag_depth] = tag;
  t->tag_depth++;
}
void sim_tag_pop(void)
{
  Thread *t = tl_self;
  if (!t)
    return;
  if (t->tag_depth > 0)
    t->tag_depth--;
}
uint64_t sim_blocked_count(void) { return tl_self ? tl_self->nblocked : 0; }
void sim_oracle_enter(void) { tl_rt_depth++; }
void sim_oracle_leave(void) { tl_rt_depth--; }
void sim_hb_enable(int on) { g.hb_on = on != 0; }
}
