// Happens-before checker: vector clocks per thread / sync object / atomic location, and
// FastTrack-style per-byte access history for watched ranges only.
#include <stdio.h>

#include "rt.h"

namespace rksim {

struct Cell  // one per watched byte
{
  uint16_t wtid;   // last writer tid+1 (0: none)
  uint16_t rtid;   // single last reader tid+1, 0xffff: read vector in use
  uint32_t wclk;
  uint32_t rclk;
  uint32_t *rvec;  // HB_MAXT clocks when shared-read
  uintptr_t wpc, rpc;
};

struct Watch
{
  uintptr_t lo, hi;
  Cell *cells;
  char name[32];
  bool autow;
};

static Vec<Watch> watches;
static uintptr_t wmin = ~(uintptr_t)0, wmax = 0;

struct AtomLoc
{
  VC vc;
};
static Vec<AtomLoc *> atoms;
static PtrMap atommap;
static VC fence_vc;

static void free_watch(Watch &w)
{
  size_t n = w.hi - w.lo;
  for (size_t i = 0; i < n; i++)
    free(w.cells[i].rvec);
  free(w.cells);
}

void hb_reset()
{
  for (size_t i = 0; i < watches.n; i++)
    free_watch(watches[i]);
  watches.clear();
  wmin = ~(uintptr_t)0;
  wmax = 0;
  for (size_t i = 0; i < atoms.n; i++)
    free(atoms[i]);
  atoms.clear();
  atommap.clear();
  fence_vc.zero();
}

bool hb_any_watch() { return watches.n != 0; }

static void add_watch(uintptr_t lo, size_t n, const char *name, bool autow)
{
  if (n == 0)
    return;
  if (!autow) {
    // an explicit, named watch replaces automatic heap watches it covers
    for (size_t i = 0; i < watches.n;) {
      if (watches[i].autow && watches[i].lo >= lo && watches[i].hi <= lo + n) {
        free_watch(watches[i]);
        watches.erase_at(i);
      } else
        i++;
    }
  }
  Watch w;
  w.lo = lo;
  w.hi = lo + n;
  w.cells = (Cell *)calloc(n, sizeof(Cell));
  snprintf(w.name, sizeof w.name, "%s", name ? name : "");
  w.autow = autow;
  watches.push(w);
  if (w.lo < wmin)
    wmin = w.lo;
  if (w.hi > wmax)
    wmax = w.hi;
}

void hb_auto_watch(uintptr_t base, size_t n, int tag)
{
  if (!g.hb_on || tag != SIM_TAG_SUT)
    return;
  if (n > 4096)
    n = 4096;
  add_watch(base, n, "heap", true);
}

void hb_thread_start(Thread *child, Thread *parent)
{
  child->vc.zero();
  if (parent && parent->id < HB_MAXT) {
    child->vc = parent->vc;
    parent->vc.c[parent->id]++;
  }
  if (child->id < HB_MAXT)
    child->vc.c[child->id] = 1;
}

void hb_acquire(Thread *me, VC *from) { me->vc.join(*from); }
void hb_release(Thread *me, VC *to)
{
  *to = me->vc;
  if (me->id < HB_MAXT)
    me->vc.c[me->id]++;
}
void hb_release_join(Thread *me, VC *to)
{
  to->join(me->vc);
  if (me->id < HB_MAXT)
    me->vc.c[me->id]++;
}

static AtomLoc *get_atom(uintptr_t a)
{
  uint32_t *s = atommap.slot(a);
  if (*s == 0) {
    AtomLoc *l = (AtomLoc *)calloc(1, sizeof(AtomLoc));
    atoms.push(l);
    *s = (uint32_t)atoms.n;
  }
  return atoms[*s - 1];
}

// mo: __ATOMIC_* value; kind: 0 load, 1 store, 2 rmw
void hb_atomic(Thread *me, uintptr_t addr, int mo, int kind)
{
  if (!g.hb_on || g.hb_overflow)
    return;
  bool acq = mo == __ATOMIC_ACQUIRE || mo == __ATOMIC_ACQ_REL || mo == __ATOMIC_SEQ_CST || mo == __ATOMIC_CONSUME;
  bool rel = mo == __ATOMIC_RELEASE || mo == __ATOMIC_ACQ_REL || mo == __ATOMIC_SEQ_CST;
  AtomLoc *l = get_atom(addr);
  if (kind == 0) {
    if (acq)
      me->vc.join(l->vc);
  } else if (kind == 1) {
    if (rel) {
      l->vc = me->vc;
      me->vc.c[me->id]++;
    }
    // relaxed store: leave the location clock (permissive: never invents a race)
  } else {
    if (acq)
      me->vc.join(l->vc);
    if (rel) {
      l->vc.join(me->vc);
      me->vc.c[me->id]++;
    }
  }
}

void hb_fence(Thread *me, int mo)
{
  if (!g.hb_on || g.hb_overflow)
    return;
  if (mo == __ATOMIC_RELAXED)
    return;
  // permissive model: every non-relaxed fence synchronises with every other one
  me->vc.join(fence_vc);
  fence_vc.join(me->vc);
  me->vc.c[me->id]++;
}

static void report_race(Thread *me, Watch &w, uintptr_t a, bool write, int other_tid, bool other_write,
                        uintptr_t pc, uintptr_t opc)
{
  char b[400];
  snprintf(b, sizeof b,
           "unordered %s by thread %d (pc=%#lx) vs earlier %s by thread %d (pc=%#lx) on %s+%lu (addr %#lx)",
           write ? "write" : "read", me->id, (unsigned long)pc, other_write ? "write" : "read", other_tid,
           (unsigned long)opc, w.name, (unsigned long)(a - w.lo), (unsigned long)a);
  char cls[96];
  snprintf(cls, sizeof cls, "data-race:%s", w.name);
  add_violation(0, cls, b);
}

void hb_access(Thread *me, uintptr_t a, size_t n, bool write, uintptr_t pc)
{
  if (a + n <= wmin || a >= wmax || !g.hb_on || g.hb_overflow || g.nviol >= MAX_VIOL)
    return;
  for (size_t wi = 0; wi < watches.n; wi++) {
    Watch &w = watches[wi];
    if (a + n <= w.lo || a >= w.hi)
      continue;
    uintptr_t lo = a < w.lo ? w.lo : a;
    uintptr_t hi = a + n > w.hi ? w.hi : a + n;
    uint32_t myclk = me->vc.c[me->id];
    g.races_checked++;
    for (uintptr_t p = lo; p < hi; p++) {
      Cell &c = w.cells[p - w.lo];
      // previous write must happen-before this access
      if (c.wtid && c.wtid - 1 != me->id && c.wclk > me->vc.c[c.wtid - 1]) {
        report_race(me, w, p, write, c.wtid - 1, true, pc, c.wpc);
        return;
      }
      if (write) {
        if (c.rtid == 0xffff) {
          for (int t = 0; t < HB_MAXT; t++)
            if (t != me->id && c.rvec[t] > me->vc.c[t]) {
              report_race(me, w, p, true, t, false, pc, c.rpc);
              return;
            }
        } else if (c.rtid && c.rtid - 1 != me->id && c.rclk > me->vc.c[c.rtid - 1]) {
          report_race(me, w, p, true, c.rtid - 1, false, pc, c.rpc);
          return;
        }
        c.wtid = (uint16_t)(me->id + 1);
        c.wclk = myclk;
        c.wpc = pc;
        c.rtid = 0;
        c.rclk = 0;
        if (c.rvec)
          memset(c.rvec, 0, HB_MAXT * sizeof(uint32_t));
      } else {
        if (c.rtid == 0xffff) {
          c.rvec[me->id] = myclk;
        } else if (c.rtid == 0 || c.rtid - 1 == me->id || c.rclk <= me->vc.c[c.rtid - 1]) {
          c.rtid = (uint16_t)(me->id + 1);
          c.rclk = myclk;
          c.rpc = pc;
        } else {
          if (!c.rvec)
            c.rvec = (uint32_t *)calloc(HB_MAXT, sizeof(uint32_t));
          c.rvec[c.rtid - 1] = c.rclk;
          c.rvec[me->id] = myclk;
          c.rtid = 0xffff;
          c.rpc = pc;
        }
      }
    }
  }
}

}  // namespace rksim

using namespace rksim;

extern "C" {
void sim_watch(const void *p, size_t n, const char *name)
{
  add_watch((uintptr_t)p, n, name, false);
}
void sim_unwatch(const void *p)
{
  for (size_t i = 0; i < watches.n; i++)
    if (watches[i].lo == (uintptr_t)p) {
      free_watch(watches[i]);
      watches.erase_at(i);
      break;
    }
  wmin = ~(uintptr_t)0;
  wmax = 0;
  for (size_t i = 0; i < watches.n; i++) {
    if (watches[i].lo < wmin)
      wmin = watches[i].lo;
    if (watches[i].hi > wmax)
      wmax = watches[i].hi;
  }
}
void sim_check_visible(const void *p, size_t n)
{
  if (in_sim())
    hb_access(tl_self, (uintptr_t)p, n, false, (uintptr_t)__builtin_return_address(0));
}
}
