// The code under test lives in one DSO (libsut_<lane>.so). Its writable image (.data/.bss) is
// snapshotted after load and restored before every run, so every run starts from the state of a
// freshly started process (tasking handle unset, TimeStamp counter initial, ...), without a fork
// per run.
#include <dlfcn.h>
#include <link.h>
#include <stdio.h>
#include <unistd.h>

#include "rt.h"

namespace rksim {

struct Region
{
  uintptr_t lo, hi;
  uint8_t *copy;
};
static Region regions[8];
static int nregions = 0;
static uintptr_t sut_base = 0;
static char sut_path[512];

static int cb(struct dl_phdr_info *info, size_t, void *)
{
  if (!info->dlpi_name || !strstr(info->dlpi_name, "libsut_"))
    return 0;
  sut_base = info->dlpi_addr;
  snprintf(sut_path, sizeof sut_path, "%s", info->dlpi_name);
  uintptr_t relro_lo = 0, relro_hi = 0;
  for (int i = 0; i < info->dlpi_phnum; i++) {
    const ElfW(Phdr) &ph = info->dlpi_phdr[i];
    if (ph.p_type == PT_GNU_RELRO) {
      relro_lo = info->dlpi_addr + ph.p_vaddr;
      relro_hi = relro_lo + ph.p_memsz;
      relro_hi = (relro_hi + 4095) & ~(uintptr_t)4095;
    }
  }
  for (int i = 0; i < info->dlpi_phnum; i++) {
    const ElfW(Phdr) &ph = info->dlpi_phdr[i];
    if (ph.p_type != PT_LOAD || !(ph.p_flags & PF_W))
      continue;
    uintptr_t lo = info->dlpi_addr + ph.p_vaddr, hi = lo + ph.p_memsz;
    if (relro_hi > lo && relro_lo <= lo)
      lo = relro_hi < hi ? relro_hi : hi;
    if (lo < hi && nregions < 8) {
      regions[nregions].lo = lo;
      regions[nregions].hi = hi;
      regions[nregions].copy = nullptr;
      nregions++;
    }
  }
  return 0;
}

void image_snapshot()
{
#ifdef RKSIM_NO_ARENA
  return;
#endif
  nregions = 0;
  dl_iterate_phdr(cb, nullptr);
  if (!nregions) {
    fprintf(stderr, "rksim: libsut_*.so not found among loaded objects\n");
    _exit(2);
  }
  for (int i = 0; i < nregions; i++) {
    size_t n = regions[i].hi - regions[i].lo;
    regions[i].copy = (uint8_t *)malloc(n);
    memcpy(regions[i].copy, (void *)regions[i].lo, n);
  }
}

void image_restore()
{
#ifdef RKSIM_NO_ARENA
  return;  // the single-task lanes keep no state in the library image; copying over ASan's global red zones is not allowed
#endif
  for (int i = 0; i < nregions; i++)
    memcpy((void *)regions[i].lo, regions[i].copy, regions[i].hi - regions[i].lo);
}

const char *image_symbolize(uintptr_t pc, char *buf, size_t n)
{
  buf[0] = 0;
  Dl_info di;
  if (!pc || !dladdr((void *)pc, &di) || !di.dli_fname) {
    snprintf(buf, n, "?");
    return buf;
  }
  char cmd[900];
  snprintf(cmd, sizeof cmd, "addr2line -f -C -s -e '%s' %#lx 2>/dev/null", di.dli_fname,
           (unsigned long)(pc - 1 - (uintptr_t)di.dli_fbase));
  FILE *f = popen(cmd, "r");
  if (!f) {
    snprintf(buf, n, "?");
    return buf;
  }
  char fn[400] = "?", loc[200] = "?";
  if (fgets(fn, sizeof fn, f)) {
    fn[strcspn(fn, "\n")] = 0;
    if (fgets(loc, sizeof loc, f))
      loc[strcspn(loc, "\n")] = 0;
  }
  pclose(f);
  // strip template / argument noise for a stable signature
  snprintf(buf, n, "%s@%s", fn, loc);
  return buf;
}

}  // namespace rksim
