// rksim public API: used by both halves of a scenario.
//  - the instrumented half (*_sut.cpp, compiled into libsut_<lane>.so with the TSan-ABI hooks)
//  - the uninstrumented half (*_oracle.cpp, compiled into the executable)
// All functions have C linkage and live in the executable (uninstrumented), so calling
// them adds no scheduling point unless documented.
#pragma once
#include <stddef.h>
#include <stdint.h>

extern "C" {

// ---- decisions -------------------------------------------------------------------------
// Every nondeterministic choice of a run. 0 is always the least disruptive option.
// plan-time (controller thread, before the run) and run-time (simulated threads) streams are
// recorded separately.
uint32_t sim_plan(uint32_t n);                 // plan decision in [0,n)
uint32_t sim_choice(uint32_t n);               // run-time decision in [0,n), uniform
// run-time fault decision: fires with probability num/den drawn from the run stream; recorded
// as one run decision (0 = no fault). kind is an index into the scenario's fault-kind table and
// is counted in the per-kind "fired" statistics when it fires.
int sim_fault(int kind, uint32_t num, uint32_t den);

// ---- events, oracle, probes --------------------------------------------------------------
uint64_t sim_event(uint32_t code, uint64_t a, uint64_t b);   // logged+hashed; returns global seq no
uint64_t sim_seq(void);                                        // current global sequence number
uint64_t sim_steps(void);                                      // scheduling points so far
int sim_self(void);                                            // simulated thread id, -1 if none
int sim_nthreads_alive(void);
void sim_fail(const char *cls, const char *fmt, ...) __attribute__((format(printf, 2, 3)));
void sim_fail_nonfatal(const char *cls, const char *fmt, ...) __attribute__((format(printf, 2, 3)));
int sim_failed(void);
void sim_probe(int id);                                        // reach probe hit
void sim_note(const char *fmt, ...) __attribute__((format(printf, 1, 2))); // free-text into the run log (not hashed)

// ---- explicit scheduling points (instrumented half) ---------------------------------------
void sim_point(void);                 // a plain scheduling point
void sim_yield(void);                 // yield: other enabled threads are preferred
void sim_work(uint32_t k);            // k plain scheduling points ("body cost")
void sim_set_fair(int on);            // fault-free fair phase: uniform random walk, no spurious wake-ups
void sim_phase(int phase);            // scenario-defined phase marker
int sim_get_phase(void);

// ---- simulated environment knobs (plan time) ---------------------------------------------
void sim_set_cores(int n);            // what sysconf(_SC_NPROCESSORS_ONLN)/get_nprocs report
void sim_set_affinity(int n);         // CPUs in the affinity mask sched_getaffinity/pthread_getaffinity_np report (taskset, cpuset cgroup); 0: all cores
void sim_set_spurious(int on);        // allow spurious condvar wake-ups
void sim_set_clock_ties(int on);      // readings by different threads may tie (each thread's own readings still increase)
void sim_set_clock_jumps(int on);     // seeded forward jumps of the simulated clock
void sim_set_step_cap(uint64_t cap);
void sim_set_tso(int on);             // explore x86-TSO store buffering (store->load reordering) in this run

// ---- heap attribution / race watching ------------------------------------------------------
enum { SIM_TAG_HARNESS = 0, SIM_TAG_INFRA = 1, SIM_TAG_SUT = 2 };
void sim_tag_push(int tag);
void sim_tag_pop(void);
void sim_watch(const void *p, size_t n, const char *name);   // happens-before race checking on [p,p+n)
void sim_unwatch(const void *p);
void sim_hb_enable(int on);
// true if the calling thread's next access would be ordered after every earlier write to [p,p+n)
// (used for "effects visible" oracles): reports a race like an instrumented read would.
void sim_check_visible(const void *p, size_t n);

// count of blocking transitions (a wait that really had to block) of the calling thread
uint64_t sim_blocked_count(void);

// oracle scope: heap allocations made while inside go to the real heap, not the per-run arena
void sim_oracle_enter(void);
void sim_oracle_leave(void);

}  // extern "C"

#ifdef __cplusplus
struct SimOracleScope
{
  SimOracleScope() { sim_oracle_enter(); }
  ~SimOracleScope() { sim_oracle_leave(); }
};
struct SimTag
{
  explicit SimTag(int t) { sim_tag_push(t); }
  ~SimTag() { sim_tag_pop(); }
};

// ---- scenario registry ----------------------------------------------------------------------
struct SimScenario
{
  const char *name;        // e.g. "c03"
  const char *property;    // e.g. "C03"
  unsigned lanes;          // bitmask of lanes this scenario is valid in
  void (*reset)();         // oracle half: clear per-run state (controller thread)
  void (*plan)(int tier);  // oracle half: draw the plan with sim_plan(); set env knobs
  void (*run)();           // instrumented half: body of simulated thread 0
  void (*check)();         // oracle half: post-run checks (controller thread, all threads finished)
  // returns 1 if a deadlock / step-cap outcome is a violation for this scenario in the current
  // phase; writes a class string
  int (*classify_stuck)(int deadlock, char *cls, size_t n);
  void (*describe)(char *buf, size_t n);   // decoded plan as a JSON object string
  const char *const *fault_names;          // null-terminated
  const char *const *probe_names;          // null-terminated
  int nontrivial_faults;                   // 1: single-task lane measure (plan,fault) instead of switches
  int fork_per_run;                        // 1: process-global state without reset: one run per forked child
};
enum { LANE_INTERNAL = 1, LANE_OMP = 2, LANE_TBB = 4, LANE_DEBUG = 8, LANE_ALL = 15 };
void sim_register(const SimScenario *s);
struct SimRegistrar
{
  explicit SimRegistrar(const SimScenario *s) { sim_register(s); }
};
#endif
